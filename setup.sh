#!/bin/sh
# Run once after a fresh restore (offline). Builds nothing that is required: the Kani dependency
# cache under .cache/ is (re)built on first use by the checks themselves; this only warms it up.
set -e
cd "$(dirname "$0")"
mkdir -p .cache evidence replays
python3 tools/kani_run.py c09_push_payload_len -j 4 --timeout 1800 >/dev/null 2>&1 || true
# the model configuration (tokio/hashbrown/parking_lot/tracing stand-ins) has its own dependency build
python3 tools/kani_run.py m_drop_multiplexor_signals_task --config model -j 2 --timeout 1800 >/dev/null 2>&1 || true
exit 0
