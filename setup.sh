#!/bin/sh
# Run once after a fresh restore (offline). Builds nothing that is required: the Kani dependency
# cache under .cache/ is (re)built on first use by the checks themselves; this only warms it up.
set -e
cd "$(dirname "$0")"
mkdir -p .cache evidence replays
python3 tools/kani_run.py c09_push_payload_len -j 4 --timeout 1800 >/dev/null 2>&1 || true
exit 0
