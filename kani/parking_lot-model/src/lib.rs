//! Sequential model of `parking_lot::{Mutex, RwLock}`.
//! state: 0 = free, -1 = held exclusively, n > 0 = n shared holders.
#![no_std]
#![allow(clippy::all)]
use core::cell::{Cell, UnsafeCell};
use core::fmt;
use core::ops::{Deref, DerefMut};

pub struct Mutex<T: ?Sized> {
    state: Cell<isize>,
    data: UnsafeCell<T>,
}
// the model is sequential; these only satisfy the bounds of the code under test
unsafe impl<T: ?Sized + Send> Send for Mutex<T> {}
unsafe impl<T: ?Sized + Send> Sync for Mutex<T> {}

impl<T> Mutex<T> {
    pub const fn new(t: T) -> Self {
        Mutex { state: Cell::new(0), data: UnsafeCell::new(t) }
    }
    pub fn into_inner(self) -> T {
        self.data.into_inner()
    }
}
impl<T: ?Sized> Mutex<T> {
    pub fn lock(&self) -> MutexGuard<'_, T> {
        assert!(self.state.get() == 0, "MODEL-DEADLOCK: Mutex::lock while this execution already holds it");
        self.state.set(-1);
        MutexGuard { m: self }
    }
    pub fn try_lock(&self) -> Option<MutexGuard<'_, T>> {
        if self.state.get() == 0 {
            self.state.set(-1);
            Some(MutexGuard { m: self })
        } else {
            None
        }
    }
    pub fn get_mut(&mut self) -> &mut T {
        self.data.get_mut()
    }
    pub fn is_locked(&self) -> bool {
        self.state.get() != 0
    }
}
impl<T: ?Sized> fmt::Debug for Mutex<T> {
    fn fmt(&self, f: &mut fmt::Formatter<'_>) -> fmt::Result {
        f.write_str("Mutex(model)")
    }
}
impl<T: Default> Default for Mutex<T> {
    fn default() -> Self {
        Self::new(T::default())
    }
}
pub struct MutexGuard<'a, T: ?Sized> {
    m: &'a Mutex<T>,
}
impl<T: ?Sized> Deref for MutexGuard<'_, T> {
    type Target = T;
    fn deref(&self) -> &T {
        // SAFETY: exclusive by the state flag (sequential model)
        unsafe { &*self.m.data.get() }
    }
}
impl<T: ?Sized> DerefMut for MutexGuard<'_, T> {
    fn deref_mut(&mut self) -> &mut T {
        // SAFETY: as above
        unsafe { &mut *self.m.data.get() }
    }
}
impl<T: ?Sized> Drop for MutexGuard<'_, T> {
    fn drop(&mut self) {
        self.m.state.set(0);
    }
}

pub struct RwLock<T: ?Sized> {
    state: Cell<isize>,
    data: UnsafeCell<T>,
}
unsafe impl<T: ?Sized + Send> Send for RwLock<T> {}
unsafe impl<T: ?Sized + Send + Sync> Sync for RwLock<T> {}

impl<T> RwLock<T> {
    pub const fn new(t: T) -> Self {
        RwLock { state: Cell::new(0), data: UnsafeCell::new(t) }
    }
    pub fn into_inner(self) -> T {
        self.data.into_inner()
    }
}
impl<T: ?Sized> RwLock<T> {
    pub fn read(&self) -> RwLockReadGuard<'_, T> {
        // parking_lot's read() can deadlock when the thread already holds a read lock and a writer
        // is queued; holding the write lock is a certain deadlock. Only the certain case is asserted.
        assert!(self.state.get() >= 0, "MODEL-DEADLOCK: RwLock::read while this execution holds the write lock");
        self.state.set(self.state.get() + 1);
        RwLockReadGuard { l: self }
    }
    pub fn write(&self) -> RwLockWriteGuard<'_, T> {
        assert!(self.state.get() == 0, "MODEL-DEADLOCK: RwLock::write while this execution already holds the lock");
        self.state.set(-1);
        RwLockWriteGuard { l: self }
    }
    pub fn get_mut(&mut self) -> &mut T {
        self.data.get_mut()
    }
    pub fn is_locked(&self) -> bool {
        self.state.get() != 0
    }
}
impl<T: ?Sized> fmt::Debug for RwLock<T> {
    fn fmt(&self, f: &mut fmt::Formatter<'_>) -> fmt::Result {
        f.write_str("RwLock(model)")
    }
}
impl<T: Default> Default for RwLock<T> {
    fn default() -> Self {
        Self::new(T::default())
    }
}
pub struct RwLockReadGuard<'a, T: ?Sized> {
    l: &'a RwLock<T>,
}
impl<T: ?Sized> Deref for RwLockReadGuard<'_, T> {
    type Target = T;
    fn deref(&self) -> &T {
        // SAFETY: no writer by the state flag (sequential model)
        unsafe { &*self.l.data.get() }
    }
}
impl<T: ?Sized> Drop for RwLockReadGuard<'_, T> {
    fn drop(&mut self) {
        self.l.state.set(self.l.state.get() - 1);
    }
}
pub struct RwLockWriteGuard<'a, T: ?Sized> {
    l: &'a RwLock<T>,
}
impl<T: ?Sized> Deref for RwLockWriteGuard<'_, T> {
    type Target = T;
    fn deref(&self) -> &T {
        // SAFETY: exclusive by the state flag
        unsafe { &*self.l.data.get() }
    }
}
impl<T: ?Sized> DerefMut for RwLockWriteGuard<'_, T> {
    fn deref_mut(&mut self) -> &mut T {
        // SAFETY: exclusive by the state flag
        unsafe { &mut *self.l.data.get() }
    }
}
impl<T: ?Sized> Drop for RwLockWriteGuard<'_, T> {
    fn drop(&mut self) {
        self.l.state.set(0);
    }
}
