//! Kani harnesses (= contracts) for `v5::read_address` (private to `v5`, hence a child module): the
//! ATYP + address part of a SOCKS5 request.  `v5::read_request` awaits this async fn from inside its
//! own state machine, which CBMC cannot fold (DESIGN.md 9.7: nested futures); the contract is
//! therefore stated on `read_address` itself, polled directly.  `read_request` adds VER, CMD, RSV in
//! front and PORT behind through the same combinators (`read_u8`, `read_u16`), whose contract is
//! exercised by the SOCKS4 and method-negotiation harnesses.
#![allow(dead_code, unused_imports, unused_variables, unused_mut)]
use super::*;
use crate::verif_kani_readers::{dotted_text, input_with, run, same_bytes, Script, CAP};
#[cfg(verif_replay)]
use crate::verif_replay_kani as kani;

/// ATYP=3 LEN host[L] + one extra byte
fn addr_domain<const L: usize>(chunk: usize, stall: bool) {
    let data = input_with(&[(0, 3), (1, L as u8)]);
    let total = 2 + L;
    let mut s = Script::new(data, total + 1, chunk, stall);
    let r = run(read_address(&mut s), if stall { 12 } else { 2 });
    match &r {
        Some(Ok(host)) => assert!(same_bytes(host, &data[2..2 + L], L), "C18.s5.domain: the domain bytes, exactly LEN of them, unchanged"),
        _ => assert!(false, "C18.s5.domain.ok: a well-formed domain address is accepted"),
    }
    core::mem::forget(r);
    assert!(s.pos == total, "C18.s5.domain.consumed: exactly ATYP, LEN and LEN bytes are consumed");
    assert!(s.out_n == 0, "C18.s5.domain.silent");
}
fn addr_ipv4(chunk: usize, stall: bool) {
    let data = input_with(&[(0, 1)]);
    let mut s = Script::new(data, 6, chunk, stall);
    let r = run(read_address(&mut s), if stall { 12 } else { 2 });
    let (exp, n) = dotted_text([data[1], data[2], data[3], data[4]]);
    match &r {
        Some(Ok(host)) => assert!(same_bytes(host, &exp, n), "C18.s5.v4.addr: the address is the dotted-quad text of the four octets"),
        _ => assert!(false, "C18.s5.v4.ok"),
    }
    core::mem::forget(r);
    assert!(s.pos == 5, "C18.s5.v4.consumed");
}
fn addr_ipv6(addr: [u8; 16], text: &[u8]) {
    let mut d = [0u8; CAP];
    d[0] = 4;
    let mut i = 0;
    while i < 16 {
        d[1 + i] = addr[i];
        i += 1;
    }
    let mut s = Script::new(d, 18, 5, false);
    let r = run(read_address(&mut s), 2);
    match &r {
        Some(Ok(host)) => assert!(same_bytes(host, text, text.len()), "C18.s5.v6.addr: RFC 5952 text of the sixteen octets"),
        _ => assert!(false, "C18.s5.v6.ok"),
    }
    core::mem::forget(r);
    assert!(s.pos == 17, "C18.s5.v6.consumed");
}
fn addr_unknown() {
    let t: u8 = kani::any();
    kani::assume(t != 1 && t != 3 && t != 4);
    let mut d: [u8; CAP] = [7; CAP];
    d[0] = t;
    let mut s = Script::new(d, 9, 4, false);
    let r = run(read_address(&mut s), 2);
    assert!(matches!(&r, Some(Err(Error::AddressType(x))) if *x == t), "C18.s5.atyp: an unknown address type is rejected with AddressType");
    core::mem::forget(r);
    let exp = [5u8, 8, 0, 1, 0, 0, 0, 0, 0, 0];
    assert!(s.out_n == 10 && same_bytes(&s.out[..10], &exp, 10) && s.flushes >= 1, "C18.s5.atyp.reply: and answered with the RFC 1928 'address type not supported' reply");
    assert!(s.pos == 1, "C18.s5.atyp.consumed: nothing behind the ATYP octet is consumed");
}
/// every proper prefix of ATYP=3 LEN=2 h h, and of an IPv4 address, followed by end-of-file
fn addr_truncated<const K: usize>(atyp: u8) {
    let data = input_with(&[(0, atyp), (1, 2)]);
    let mut s = Script::new(data, K, 3, false);
    let r = run(read_address(&mut s), 2);
    assert!(matches!(&r, Some(Err(Error::ProcessSocksRequest(_, _)))), "C18.s5.truncated: a truncated address fails with an error");
    core::mem::forget(r);
}

macro_rules! h {
    ($name:ident, $unwind:expr, $body:expr) => {
        #[cfg_attr(kani, kani::proof)]
        #[cfg_attr(kani, kani::unwind($unwind))]
        #[cfg_attr(verif_replay, test)]
        fn $name() {
            $body
        }
    };
}
h!(c18_s5_addr_domain_l0, 27, addr_domain::<0>(1, false));
h!(c18_s5_addr_domain_l1_stall, 27, addr_domain::<1>(1, true));
h!(c18_s5_addr_domain_l3_whole, 27, addr_domain::<3>(24, false));
h!(c18_s5_addr_domain_l3_c2, 27, addr_domain::<3>(2, false));
h!(c18_s5_addr_ipv4_whole, 27, addr_ipv4(24, false));
h!(c18_s5_addr_ipv4_c1_stall, 27, addr_ipv4(1, true));
h!(c18_s5_addr_ipv6_loopback, 27, addr_ipv6([0, 0, 0, 0, 0, 0, 0, 0, 0, 0, 0, 0, 0, 0, 0, 1], b"::1"));
h!(c18_s5_addr_ipv6_doc, 27, addr_ipv6([0x20, 0x01, 0x0d, 0xb8, 0, 0, 0, 0, 0, 0, 0, 0, 0, 0, 0, 1], b"2001:db8::1"));
h!(c18_s5_addr_unknown_atyp, 27, addr_unknown());
h!(c18_s5_addr_truncated_dom_k0, 27, addr_truncated::<0>(3));
h!(c18_s5_addr_truncated_dom_k1, 27, addr_truncated::<1>(3));
h!(c18_s5_addr_truncated_dom_k2, 27, addr_truncated::<2>(3));
h!(c18_s5_addr_truncated_dom_k3, 27, addr_truncated::<3>(3));
h!(c18_s5_addr_truncated_v4_k1, 27, addr_truncated::<1>(1));
h!(c18_s5_addr_truncated_v4_k4, 27, addr_truncated::<4>(1));
