//! Kani harnesses (= contracts) for the SOCKS4/4a/5 request readers and reply writers (C18).
//! Built against /verif/kani/tokio-model: the io-util combinators (`read_u8/u16/u32`,
//! `read_exact`, `read_until`, `write_all`, `flush`) are an ASSUMED CONTRACT of tokio, stated in the
//! model; the reader/writer functions of penguin-socks are the real ones, unmodified.
//!
//! The byte source is a script: `len` bytes followed by end-of-file, handed out at most `chunk`
//! bytes per call, optionally returning `Pending` before every delivery.  Every request harness
//! appends one extra byte behind the request and checks that it is NOT consumed ("consume exactly
//! the bytes of that request").  Field lengths are concrete per harness (one instantiation per
//! length: symbolic allocation sizes are intractable), all field contents are symbolic.
//! The reference parsers below are written from RFC 1928 / the SOCKS4a convention and share no
//! code with v4.rs / v5.rs.
#![allow(dead_code, unused_imports, unused_variables, unused_mut)]
use crate::{magics, v4, v5, Error};
use core::future::Future;
use core::net::{IpAddr, Ipv4Addr, Ipv6Addr, SocketAddr};
use core::pin::Pin;
use core::task::{Context, Poll, Waker};
use std::io;
use tokio::io::{AsyncBufRead, AsyncRead, AsyncWrite, ReadBuf};
#[cfg(verif_replay)]
use crate::verif_replay_kani as kani;

pub(crate) const CAP: usize = 24;

/// the input bytes live in their own static, apart from the script's control state (position,
/// chunking): copying symbolic bytes out of an object that also holds the control fields makes CBMC
/// stop folding those fields (measured on the bridge harnesses, DESIGN.md 9.6)
static mut INPUT: [u8; CAP] = [0; CAP];
#[allow(static_mut_refs)]
fn input() -> &'static [u8; CAP] {
    unsafe { &INPUT }
}

pub(crate) struct Script {
    pub len: usize,
    pub pos: usize,
    pub chunk: usize,
    pub stall: bool,
    stalled: bool,
    pub out: [u8; 24],
    pub out_n: usize,
    pub flushes: usize,
}
impl Script {
    pub(crate) fn new(data: [u8; CAP], len: usize, chunk: usize, stall: bool) -> Self {
        unsafe { INPUT = data };
        Script { len, pos: 0, chunk, stall, stalled: false, out: [0; 24], out_n: 0, flushes: 0 }
    }
    fn gate(&mut self) -> bool {
        if self.stall && !self.stalled {
            self.stalled = true;
            return false;
        }
        self.stalled = false;
        true
    }
}
impl AsyncRead for Script {
    fn poll_read(self: Pin<&mut Self>, _cx: &mut Context<'_>, buf: &mut ReadBuf<'_>) -> Poll<io::Result<()>> {
        let me = self.get_mut();
        if !me.gate() {
            return Poll::Pending;
        }
        let mut k = me.len - me.pos;
        if k > me.chunk {
            k = me.chunk;
        }
        if k > buf.remaining() {
            k = buf.remaining();
        }
        buf.put_slice(&input()[me.pos..me.pos + k]);
        me.pos += k;
        Poll::Ready(Ok(()))
    }
}
impl AsyncBufRead for Script {
    fn poll_fill_buf(self: Pin<&mut Self>, _cx: &mut Context<'_>) -> Poll<io::Result<&[u8]>> {
        let me = self.get_mut();
        if !me.gate() {
            return Poll::Pending;
        }
        let mut k = me.len - me.pos;
        if k > me.chunk {
            k = me.chunk;
        }
        Poll::Ready(Ok(&input()[me.pos..me.pos + k]))
    }
    fn consume(self: Pin<&mut Self>, amt: usize) {
        let me = self.get_mut();
        assert!(me.pos + amt <= me.len, "SCRIPT: consume beyond the data handed out");
        me.pos += amt;
    }
}
impl AsyncWrite for Script {
    fn poll_write(self: Pin<&mut Self>, _cx: &mut Context<'_>, buf: &[u8]) -> Poll<io::Result<usize>> {
        let me = self.get_mut();
        let mut k = buf.len();
        if k > me.chunk {
            k = me.chunk;
        }
        let mut i = 0;
        while i < k {
            me.out[me.out_n] = buf[i];
            me.out_n += 1;
            i += 1;
        }
        Poll::Ready(Ok(k))
    }
    fn poll_flush(self: Pin<&mut Self>, _cx: &mut Context<'_>) -> Poll<io::Result<()>> {
        self.get_mut().flushes += 1;
        Poll::Ready(Ok(()))
    }
    fn poll_shutdown(self: Pin<&mut Self>, _cx: &mut Context<'_>) -> Poll<io::Result<()>> {
        Poll::Ready(Ok(()))
    }
}


/// an input of CAP bytes: every byte symbolic except the listed (index, value) pairs, which are
/// written as literal constants BEFORE anything is copied (so that CBMC folds the branches on them)
pub(crate) fn input_with(fixed: &[(usize, u8)]) -> [u8; CAP] {
    let mut d = [0u8; CAP];
    let mut i = 0;
    while i < CAP {
        let mut is_fixed = false;
        let mut j = 0;
        while j < fixed.len() {
            if fixed[j].0 == i {
                d[i] = fixed[j].1;
                is_fixed = true;
            }
            j += 1;
        }
        if !is_fixed {
            d[i] = kani::any();
        }
        i += 1;
    }
    d
}

/// poll to completion (at most `max` polls); the future is leaked, never dropped
pub(crate) fn run<F: Future>(f: F, max: usize) -> Option<F::Output> {
    let mut f = core::mem::ManuallyDrop::new(f);
    // SAFETY: never moved again, never dropped
    let mut p = unsafe { Pin::new_unchecked(&mut *f) };
    let mut c = Context::from_waker(Waker::noop());
    let mut i = 0;
    while i < max {
        if let Poll::Ready(v) = p.as_mut().poll(&mut c) {
            return Some(v);
        }
        i += 1;
    }
    None
}

/// decimal text of one octet, written to `out[at..]`; returns the new position
fn put_dec(out: &mut [u8; 16], at: usize, v: u8) -> usize {
    let mut at = at;
    if v >= 100 {
        out[at] = b'0' + v / 100;
        at += 1;
    }
    if v >= 10 {
        out[at] = b'0' + (v / 10) % 10;
        at += 1;
    }
    out[at] = b'0' + v % 10;
    at + 1
}
/// dotted-quad text (the textual form the readers hand on as "address")
pub(crate) fn dotted_text(ip: [u8; 4]) -> ([u8; 16], usize) {
    dotted(ip)
}
fn dotted(ip: [u8; 4]) -> ([u8; 16], usize) {
    let mut out = [0u8; 16];
    let mut n = put_dec(&mut out, 0, ip[0]);
    out[n] = b'.';
    n = put_dec(&mut out, n + 1, ip[1]);
    out[n] = b'.';
    n = put_dec(&mut out, n + 1, ip[2]);
    out[n] = b'.';
    n = put_dec(&mut out, n + 1, ip[3]);
    (out, n)
}
pub(crate) fn same_bytes(v: &[u8], exp: &[u8], n: usize) -> bool {
    same(v, exp, n)
}
fn same(v: &[u8], exp: &[u8], n: usize) -> bool {
    if v.len() != n {
        return false;
    }
    let mut i = 0;
    while i < n {
        if v[i] != exp[i] {
            return false;
        }
        i += 1;
    }
    true
}

// ============================================================================ SOCKS5 request
/// VER CMD RSV ATYP=3 LEN host[L] PORT + one extra byte.  `chunk`/`stall` fixed per instantiation.
fn s5_domain<const L: usize>(chunk: usize, stall: bool) {
    let data = input_with(&[(0, 5), (3, 3), (4, L as u8)]);
    let total = 7 + L;
    let mut s = Script::new(data, total + 1, chunk, stall);
    let r = run(v5::read_request(&mut s), if stall { 20 } else { 2 });
    match &r {
        Some(Ok((cmd, host, port))) => {
            assert!(*cmd == data[1], "C18.s5.cmd: the command octet");
            assert!(same(host, &data[5..5 + L], L), "C18.s5.domain: the domain bytes, exactly LEN of them, unchanged");
            assert!(*port == (data[5 + L] as u16) * 256 + data[6 + L] as u16, "C18.s5.port: network byte order");
        }
        _ => assert!(false, "C18.s5.domain.ok: a well-formed request is accepted"),
    }
    core::mem::forget(r);
    assert!(s.pos == total, "C18.s5.consumed: exactly the bytes of the request are consumed");
    assert!(s.out_n == 0, "C18.s5.silent: nothing is written for a valid request");
}

fn s5_ipv4(chunk: usize, stall: bool) {
    let mut data: [u8; CAP] = kani::any();
    data[0] = 5;
    data[3] = 1;
    let total = 10;
    let mut s = Script::new(data, total + 1, chunk, stall);
    let r = run(v5::read_request(&mut s), if stall { 20 } else { 2 });
    let (exp, n) = dotted([data[4], data[5], data[6], data[7]]);
    match &r {
        Some(Ok((cmd, host, port))) => {
            assert!(*cmd == data[1] && *port == (data[8] as u16) * 256 + data[9] as u16, "C18.s5.v4.fields");
            assert!(same(host, &exp, n), "C18.s5.v4.addr: the address is the dotted-quad text of the four octets");
        }
        _ => assert!(false, "C18.s5.v4.ok"),
    }
    core::mem::forget(r);
    assert!(s.pos == total, "C18.s5.v4.consumed");
}

/// IPv6: concrete addresses (the canonical text form is std's; compared with RFC 5952 literals)
fn s5_ipv6(addr: [u8; 16], text: &[u8]) {
    let mut data: [u8; CAP] = kani::any();
    data[0] = 5;
    data[3] = 4;
    let mut i = 0;
    while i < 16 {
        data[4 + i] = addr[i];
        i += 1;
    }
    let total = 22;
    let mut s = Script::new(data, total + 1, 5, false);
    let r = run(v5::read_request(&mut s), 2);
    match &r {
        Some(Ok((cmd, host, port))) => {
            assert!(*cmd == data[1] && *port == (data[20] as u16) * 256 + data[21] as u16, "C18.s5.v6.fields");
            assert!(same(host, text, text.len()), "C18.s5.v6.addr: RFC 5952 text of the sixteen octets");
        }
        _ => assert!(false, "C18.s5.v6.ok"),
    }
    core::mem::forget(r);
    assert!(s.pos == total, "C18.s5.v6.consumed");
}

/// every proper prefix of a well-formed domain request (L = 2, 9 bytes) followed by end-of-file is an
/// error: never Ok, never a panic, never an endless wait
fn s5_truncated<const K: usize>() {
    let mut data: [u8; CAP] = kani::any();
    data[0] = 5;
    data[3] = 3;
    data[4] = 2;
    let mut s = Script::new(data, K, 3, false);
    let r = run(v5::read_request(&mut s), 2);
    assert!(matches!(&r, Some(Err(Error::ProcessSocksRequest(_, _)))), "C18.s5.truncated: a truncated request fails with an error");
    core::mem::forget(r);
}

fn s5_bad_version() {
    let mut data: [u8; CAP] = kani::any();
    kani::assume(data[0] != 5);
    let mut s = Script::new(data, 12, 4, false);
    let r = run(v5::read_request(&mut s), 2);
    assert!(matches!(&r, Some(Err(Error::SocksVersion(v))) if *v == data[0]), "C18.s5.version: any other version octet is rejected with SocksVersion");
    core::mem::forget(r);
    assert!(s.out_n == 0, "C18.s5.version.silent");
}

fn s5_unknown_atyp() {
    let mut data: [u8; CAP] = kani::any();
    data[0] = 5;
    kani::assume(data[3] != 1 && data[3] != 3 && data[3] != 4);
    let mut s = Script::new(data, 12, 4, false);
    let r = run(v5::read_request(&mut s), 2);
    assert!(matches!(&r, Some(Err(Error::AddressType(t))) if *t == data[3]), "C18.s5.atyp: an unknown address type is rejected with AddressType");
    core::mem::forget(r);
    let exp = [5u8, 8, 0, 1, 0, 0, 0, 0, 0, 0];
    assert!(s.out_n == 10 && same(&s.out[..10], &exp, 10) && s.flushes >= 1, "C18.s5.atyp.reply: and answered with the RFC 1928 'address type not supported' reply");
    assert!(s.pos == 4, "C18.s5.atyp.consumed: nothing behind the ATYP octet is consumed");
}

// ============================================================================ SOCKS5 method negotiation
fn s5_auth<const N: usize>(chunk: usize) {
    let mut data: [u8; CAP] = kani::any();
    data[0] = N as u8;
    let mut s = Script::new(data, 1 + N + 1, chunk, false);
    let r = run(v5::read_auth_methods(&mut s), 2);
    match &r {
        Some(Ok(m)) => assert!(same(m, &data[1..1 + N], N), "C18.s5.auth: exactly NMETHODS method octets, unchanged"),
        _ => assert!(false, "C18.s5.auth.ok"),
    }
    core::mem::forget(r);
    assert!(s.pos == 1 + N, "C18.s5.auth.consumed");
}
fn s5_auth_truncated(len: usize) {
    let mut data: [u8; CAP] = kani::any();
    data[0] = 3;
    let mut s = Script::new(data, len, 2, false);
    let r = run(v5::read_auth_methods(&mut s), 2);
    assert!(matches!(&r, Some(Err(Error::ProcessSocksRequest(_, _)))), "C18.s5.auth.truncated");
    core::mem::forget(r);
}

// ============================================================================ SOCKS5 replies
fn s5_write_auth_method() {
    let m: u8 = kani::any();
    let mut s = Script::new([0; CAP], 0, 1, false);
    let r = run(v5::write_auth_method(&mut s, m), 2);
    assert!(matches!(&r, Some(Ok(()))), "C18.s5.wauth.ok");
    core::mem::forget(r);
    assert!(s.out_n == 2 && s.out[0] == 5 && s.out[1] == m && s.flushes >= 1, "C18.s5.wauth.bytes: VER=5, METHOD");
}
fn s5_write_response_v4() {
    let code: u8 = kani::any();
    let ip: [u8; 4] = kani::any();
    let port: u16 = kani::any();
    let mut s = Script::new([0; CAP], 0, 3, false);
    let a = SocketAddr::new(IpAddr::V4(Ipv4Addr::new(ip[0], ip[1], ip[2], ip[3])), port);
    let r = run(v5::write_response(&mut s, code, a), 2);
    assert!(matches!(&r, Some(Ok(()))), "C18.s5.reply4.ok");
    core::mem::forget(r);
    assert!(s.out_n == 10 && s.out[0] == 5 && s.out[1] == code && s.out[2] == 0 && s.out[3] == 1, "C18.s5.reply4.head: VER REP RSV ATYP");
    assert!(s.out[4] == ip[0] && s.out[5] == ip[1] && s.out[6] == ip[2] && s.out[7] == ip[3], "C18.s5.reply4.addr");
    assert!((s.out[8] as u16) * 256 + s.out[9] as u16 == port && s.flushes >= 1, "C18.s5.reply4.port");
}
fn s5_write_response_v6() {
    let code: u8 = kani::any();
    let ip: [u8; 16] = kani::any();
    let port: u16 = kani::any();
    let mut s = Script::new([0; CAP], 0, 24, false);
    let a = SocketAddr::new(IpAddr::V6(Ipv6Addr::from(ip)), port);
    let r = run(v5::write_response(&mut s, code, a), 2);
    assert!(matches!(&r, Some(Ok(()))), "C18.s5.reply6.ok");
    core::mem::forget(r);
    assert!(s.out_n == 22 && s.out[0] == 5 && s.out[1] == code && s.out[2] == 0 && s.out[3] == 4, "C18.s5.reply6.head");
    assert!(same(&s.out[4..20], &ip, 16), "C18.s5.reply6.addr");
    assert!((s.out[20] as u16) * 256 + s.out[21] as u16 == port, "C18.s5.reply6.port");
}
fn s5_write_response_unspecified() {
    let code: u8 = kani::any();
    let mut s = Script::new([0; CAP], 0, 4, false);
    let r = run(v5::write_response_unspecified(&mut s, code), 2);
    assert!(matches!(&r, Some(Ok(()))), "C18.s5.replyu.ok");
    core::mem::forget(r);
    let exp = [5u8, code, 0, 1, 0, 0, 0, 0, 0, 0];
    assert!(s.out_n == 10 && same(&s.out[..10], &exp, 10), "C18.s5.replyu.bytes");
}

// ============================================================================ SOCKS4 / 4a
/// CMD PORT IP USERID NUL [DOMAIN NUL] (the version octet was read by the caller) + one extra byte
fn s4_ip<const U: usize>(chunk: usize, stall: bool) {
    let mut data: [u8; CAP] = kani::any();
    // a plain SOCKS4 request: anything but 0.0.0.x with x != 0
    kani::assume(!(data[3] == 0 && data[4] == 0 && data[5] == 0 && data[6] != 0));
    // the bytes scanned for the NUL are concrete: a symbolic byte compared with the delimiter forks
    // the symbolic execution at every position (the NUL positions are the structure under test)
    let mut i = 0;
    while i < U {
        data[7 + i] = b'u';
        i += 1;
    }
    data[7 + U] = 0;
    let total = 8 + U;
    let mut s = Script::new(data, total + 1, chunk, stall);
    let r = run(v4::read_request(&mut s), if stall { 20 } else { 2 });
    let (exp, n) = dotted([data[3], data[4], data[5], data[6]]);
    match &r {
        Some(Ok((cmd, host, port))) => {
            assert!(*cmd == data[0] && *port == (data[1] as u16) * 256 + data[2] as u16, "C18.s4.fields: command and port");
            assert!(same(host, &exp, n), "C18.s4.addr: the address is the dotted-quad text of DSTIP");
        }
        _ => assert!(false, "C18.s4.ok: a well-formed SOCKS4 request is accepted"),
    }
    core::mem::forget(r);
    assert!(s.pos == total, "C18.s4.consumed: exactly the request (up to the NUL of USERID) is consumed");
}

fn s4a_domain<const U: usize, const D: usize>(chunk: usize, stall: bool) {
    let mut data: [u8; CAP] = kani::any();
    data[3] = 0;
    data[4] = 0;
    data[5] = 0;
    kani::assume(data[6] != 0);
    let mut i = 0;
    while i < U {
        data[7 + i] = b'u';
        i += 1;
    }
    data[7 + U] = 0;
    let d0 = 8 + U;
    i = 0;
    while i < D {
        data[d0 + i] = b'a' + i as u8;
        i += 1;
    }
    data[d0 + D] = 0;
    let total = d0 + D + 1;
    let mut s = Script::new(data, total + 1, chunk, stall);
    let r = run(v4::read_request(&mut s), if stall { 20 } else { 2 });
    match &r {
        Some(Ok((cmd, host, port))) => {
            assert!(*cmd == data[0] && *port == (data[1] as u16) * 256 + data[2] as u16, "C18.s4a.fields");
            assert!(same(host, &data[d0..d0 + D], D), "C18.s4a.domain: the bytes between the two NULs, unchanged");
        }
        _ => assert!(false, "C18.s4a.ok"),
    }
    core::mem::forget(r);
    assert!(s.pos == total, "C18.s4a.consumed");
}

/// end-of-file inside USERID (no NUL) or inside the 4a domain: truncated input is an error
fn s4_truncated_in_userid() {
    let mut data: [u8; CAP] = kani::any();
    let four_a: bool = kani::any();
    if four_a {
        data[3] = 0;
        data[4] = 0;
        data[5] = 0;
        data[6] = 9;
    } else {
        kani::assume(data[3] != 0);
    }
    data[7] = b'u';
    data[8] = b'v';
    let mut s = Script::new(data, 9, 4, false); // ... 'u' 'v' EOF
    let r = run(v4::read_request(&mut s), 2);
    assert!(!matches!(&r, Some(Ok(_))), "C18.s4.truncated.userid: end-of-file before the NUL of USERID is a truncated request, not a valid one");
    assert!(r.is_some(), "C18.s4.truncated.userid.terminates");
    core::mem::forget(r);
}
fn s4a_truncated_in_domain() {
    let mut data: [u8; CAP] = kani::any();
    data[3] = 0;
    data[4] = 0;
    data[5] = 0;
    data[6] = 1;
    data[7] = b'u';
    data[8] = 0;
    let none: bool = kani::any();
    data[9] = b'h';
    data[10] = b'o';
    let mut s = Script::new(data, if none { 9 } else { 11 }, 4, false); // domain absent, or 'h' 'o' EOF
    let r = run(v4::read_request(&mut s), 2);
    assert!(!matches!(&r, Some(Ok(_))), "C18.s4a.truncated.domain: end-of-file before the NUL of the domain name is a truncated request");
    assert!(r.is_some(), "C18.s4a.truncated.domain.terminates");
    core::mem::forget(r);
}
fn s4_truncated_header<const K: usize>() {
    let data: [u8; CAP] = kani::any();
    let mut s = Script::new(data, K, 3, false);
    let r = run(v4::read_request(&mut s), 2);
    assert!(matches!(&r, Some(Err(Error::ProcessSocksRequest(_, _)))), "C18.s4.truncated.header");
    core::mem::forget(r);
}
fn s4_write_response() {
    let code: u8 = kani::any();
    let mut s = Script::new([0; CAP], 0, 3, false);
    let r = run(v4::write_response(&mut s, code), 2);
    assert!(matches!(&r, Some(Ok(()))), "C18.s4.reply.ok");
    core::mem::forget(r);
    let exp = [0u8, code, 0, 0, 0, 0, 0, 0];
    assert!(s.out_n == 8 && same(&s.out[..8], &exp, 8) && s.flushes >= 1, "C18.s4.reply.bytes: VN=0, CD, six ignored octets");
}

macro_rules! h {
    ($name:ident, $unwind:expr, $body:expr) => {
        #[cfg_attr(kani, kani::proof)]
        #[cfg_attr(kani, kani::unwind($unwind))]
        #[cfg_attr(verif_replay, test)]
        fn $name() {
            $body
        }
    };
}
h!(c18_s5_req_domain_l0, 27, s5_domain::<0>(1, false));
h!(c18_s5_req_domain_l1_stall, 27, s5_domain::<1>(1, true));
h!(c18_s5_req_domain_l3_whole, 27, s5_domain::<3>(24, false));
h!(c18_s5_req_domain_l3_c2, 27, s5_domain::<3>(2, false));
h!(c18_s5_req_ipv4_whole, 27, s5_ipv4(24, false));
h!(c18_s5_req_ipv4_c1_stall, 27, s5_ipv4(1, true));
h!(c18_s5_req_ipv6_loopback, 27, s5_ipv6([0, 0, 0, 0, 0, 0, 0, 0, 0, 0, 0, 0, 0, 0, 0, 1], b"::1"));
h!(c18_s5_req_ipv6_doc, 27, s5_ipv6([0x20, 0x01, 0x0d, 0xb8, 0, 0, 0, 0, 0, 0, 0, 0, 0, 0, 0, 1], b"2001:db8::1"));
h!(c18_s5_req_truncated_k0, 27, s5_truncated::<0>());
h!(c18_s5_req_truncated_k1, 27, s5_truncated::<1>());
h!(c18_s5_req_truncated_k2, 27, s5_truncated::<2>());
h!(c18_s5_req_truncated_k3, 27, s5_truncated::<3>());
h!(c18_s5_req_truncated_k4, 27, s5_truncated::<4>());
h!(c18_s5_req_truncated_k5, 27, s5_truncated::<5>());
h!(c18_s5_req_truncated_k6, 27, s5_truncated::<6>());
h!(c18_s5_req_truncated_k7, 27, s5_truncated::<7>());
h!(c18_s5_req_truncated_k8, 27, s5_truncated::<8>());
h!(c18_s5_req_bad_version, 27, s5_bad_version());
h!(c18_s5_req_unknown_atyp, 27, s5_unknown_atyp());
h!(c18_s5_auth_n0, 27, s5_auth::<0>(1));
h!(c18_s5_auth_n2, 27, s5_auth::<2>(1));
h!(c18_s5_auth_n3, 27, s5_auth::<3>(24));
h!(c18_s5_auth_truncated_empty, 27, s5_auth_truncated(0));
h!(c18_s5_auth_truncated_mid, 27, s5_auth_truncated(3));
h!(c18_s5_write_auth_method, 27, s5_write_auth_method());
h!(c18_s5_write_response_v4, 27, s5_write_response_v4());
h!(c18_s5_write_response_v6, 27, s5_write_response_v6());
h!(c18_s5_write_response_unspecified, 27, s5_write_response_unspecified());
h!(c18_s4_req_ip_u0, 27, s4_ip::<0>(24, false));
h!(c18_s4_req_ip_u2_c1_stall, 27, s4_ip::<2>(1, true));
h!(c18_s4a_req_u1_d2, 27, s4a_domain::<1, 2>(24, false));
h!(c18_s4a_req_u0_d0, 27, s4a_domain::<0, 0>(1, false));
h!(c18_s4a_req_u2_d3_c2_stall, 27, s4a_domain::<2, 3>(2, true));
h!(c18_s4_req_truncated_in_userid, 27, s4_truncated_in_userid());
h!(c18_s4a_req_truncated_in_domain, 27, s4a_truncated_in_domain());
h!(c18_s4_req_truncated_k0, 27, s4_truncated_header::<0>());
h!(c18_s4_req_truncated_k2, 27, s4_truncated_header::<2>());
h!(c18_s4_req_truncated_k5, 27, s4_truncated_header::<5>());
h!(c18_s4_req_truncated_k7, 27, s4_truncated_header::<7>());
h!(c18_s4_write_response, 27, s4_write_response());
