//! Kani harnesses (= contracts) for the SOCKS5 UDP relay header (RFC 1928 section 7), child module
//! of `penguin_socks::v5`.  C18 (UDP header clause; also the header half of C01's UDP clause).
//!   +----+------+------+----------+----------+----------+
//!   |RSV | FRAG | ATYP | DST.ADDR | DST.PORT |   DATA   |
//!   | 2  |  1   |  1   | Variable |    2     | Variable |
//! The reference client parser below is written from the RFC and shares no code with v5.rs.
#![allow(dead_code, unused_imports)]
use super::*;
#[cfg(verif_replay)]
use crate::verif_replay_kani as kani;

/// what a conforming SOCKS5 client recovers from a relay datagram (None = malformed)
/// returns (atyp, address bytes offset, address length, port, payload offset)
fn rfc1928_client_parse(b: &[u8]) -> Option<(u8, usize, usize, u16, usize)> {
    if b.len() < 4 || b[0] != 0 || b[1] != 0 || b[2] != 0 {
        return None;
    }
    let atyp = b[3];
    let alen = match atyp {
        1 => 4,
        4 => 16,
        _ => return None,
    };
    if b.len() < 4 + alen + 2 {
        return None;
    }
    let port = (b[4 + alen] as u16) * 256 + b[4 + alen + 1] as u16;
    Some((atyp, 4, alen, port, 4 + alen + 2))
}

fn response_contract_v4<const D: usize>() {
    let ip: [u8; 4] = kani::any();
    let port: u16 = kani::any();
    let data: [u8; D] = kani::any();
    let target = SocketAddr::new(IpAddr::V4(Ipv4Addr::new(ip[0], ip[1], ip[2], ip[3])), port);
    let out = udp_relay_response(target, &data);
    assert!(out.len() == 4 + 4 + 2 + D, "C18.udp.build.len: header is 10 bytes for IPv4, payload follows");
    let p = rfc1928_client_parse(&out);
    assert!(p.is_some(), "C18.udp.build.wellformed: a conforming client can parse the header (RSV, FRAG, ATYP, ADDR, PORT)");
    if let Some((atyp, aoff, alen, pport, doff)) = p {
        assert!(atyp == 1 && alen == 4, "C18.udp.build.atyp: ATYP is the 4th byte and says IPv4");
        assert!(out[aoff] == ip[0] && out[aoff + 1] == ip[1] && out[aoff + 2] == ip[2] && out[aoff + 3] == ip[3], "C18.udp.build.addr: same address");
        assert!(pport == port, "C18.udp.build.port: same port");
        assert!(out.len() - doff == D, "C18.udp.build.payload_len: payload length preserved");
        let mut i = 0;
        while i < D {
            assert!(out[doff + i] == data[i], "C18.udp.build.payload: payload unmodified");
            i += 1;
        }
    }
    core::mem::forget(out);
}

fn response_contract_v6<const D: usize>() {
    let ip: [u8; 16] = kani::any();
    let port: u16 = kani::any();
    let data: [u8; D] = kani::any();
    let target = SocketAddr::new(IpAddr::V6(Ipv6Addr::from(ip)), port);
    let out = udp_relay_response(target, &data);
    assert!(out.len() == 4 + 16 + 2 + D, "C18.udp.build6.len: header is 22 bytes for IPv6");
    let p = rfc1928_client_parse(&out);
    assert!(p.is_some(), "C18.udp.build6.wellformed: a conforming client can parse the header");
    if let Some((atyp, aoff, alen, pport, doff)) = p {
        assert!(atyp == 4 && alen == 16, "C18.udp.build6.atyp: ATYP is the 4th byte and says IPv6");
        let mut k = 0;
        while k < 16 {
            assert!(out[aoff + k] == ip[k], "C18.udp.build6.addr: same address");
            k += 1;
        }
        assert!(pport == port, "C18.udp.build6.port");
        let mut i = 0;
        while i < D {
            assert!(out[doff + i] == data[i], "C18.udp.build6.payload: payload unmodified");
            i += 1;
        }
    }
    core::mem::forget(out);
}

macro_rules! h {
    ($name:ident, $body:expr) => {
        #[cfg_attr(kani, kani::proof)]
        #[cfg_attr(kani, kani::unwind(20))]
        #[cfg_attr(verif_replay, test)]
        fn $name() {
            $body;
        }
    };
}
h!(c18_udp_response_v4_d0, response_contract_v4::<0>());
h!(c18_udp_response_v4_d3, response_contract_v4::<3>());
h!(c18_udp_response_v6_d0, response_contract_v6::<0>());
h!(c18_udp_response_v6_d2, response_contract_v6::<2>());

/// `parse_udp_relay_header`: total (no panic); domain branch exact; malformed input -> the documented error
fn parse_contract_domain<const L: usize, const D: usize>() {
    // RSV RSV FRAG ATYP LEN host[L] PORT PORT data[D]
    let mut pkt = [0u8; 32];
    let rsv: [u8; 2] = kani::any();
    let frag: u8 = kani::any();
    let host: [u8; L] = kani::any();
    let port: u16 = kani::any();
    let data: [u8; D] = kani::any();
    pkt[0] = rsv[0];
    pkt[1] = rsv[1];
    pkt[2] = frag;
    pkt[3] = 3;
    pkt[4] = L as u8;
    pkt[5..5 + L].copy_from_slice(&host);
    pkt[5 + L] = (port / 256) as u8;
    pkt[6 + L] = (port % 256) as u8;
    pkt[7 + L..7 + L + D].copy_from_slice(&data);
    let n = 7 + L + D;
    let r = parse_udp_relay_header(Bytes::copy_from_slice(&pkt[..n]));
    match r {
        Ok((dst, p, rest)) => {
            assert!(frag == 0, "C18.udp.parse.frag: fragments are refused");
            assert!(dst.len() == L && p == port && rest.len() == D, "C18.udp.parse.domain: address, port and payload split exactly per RFC 1928");
            let mut i = 0;
            while i < L {
                assert!(dst[i] == host[i], "C18.udp.parse.host: domain bytes unchanged");
                i += 1;
            }
            let mut j = 0;
            while j < D {
                assert!(rest[j] == data[j], "C18.udp.parse.payload: payload unchanged");
                j += 1;
            }
            core::mem::forget((dst, rest));
        }
        Err(e) => {
            assert!(frag != 0 && matches!(e, Error::FragmentedUdp), "C18.udp.parse.err: a well-formed unfragmented datagram is accepted; FRAG != 0 gives FragmentedUdp");
            core::mem::forget(e);
        }
    }
}
h!(c18_udp_parse_domain_l0_d0, parse_contract_domain::<0, 0>());
h!(c18_udp_parse_domain_l3_d2, parse_contract_domain::<3, 2>());

/// every truncation point of a domain datagram and unknown ATYP: error, never a panic
fn parse_truncated<const N: usize>() {
    let pkt: [u8; N] = kani::any();
    // domain type or unknown types only: the IPv4/IPv6 branches format text (std::fmt), kept out of this harness
    if N > 3 {
        kani::assume(pkt[3] != 1 && pkt[3] != 4);
    }
    let r = parse_udp_relay_header(Bytes::copy_from_slice(&pkt));
    let complete = N >= 7 && pkt[2] == 0 && pkt[3] == 3 && N >= 7 + pkt[4] as usize;
    match r {
        Ok((dst, _p, rest)) => {
            assert!(complete, "C18.udp.parse.trunc: truncated or unknown-type input is never accepted");
            assert!(dst.len() == pkt[4] as usize && rest.len() == N - 7 - pkt[4] as usize, "C18.udp.parse.consumed: exactly the header is consumed");
            core::mem::forget((dst, rest));
        }
        Err(e) => {
            assert!(!complete, "C18.udp.parse.total: complete well-formed input is accepted");
            if N >= 4 && pkt[2] == 0 && pkt[3] != 3 {
                assert!(matches!(e, Error::UnknownAddressType(t) if t == pkt[3]), "C18.udp.parse.atyp: unknown address type is reported as such");
            }
            core::mem::forget(e);
        }
    }
}
h!(c18_udp_parse_any_n0, parse_truncated::<0>());
h!(c18_udp_parse_any_n3, parse_truncated::<3>());
h!(c18_udp_parse_any_n4, parse_truncated::<4>());
h!(c18_udp_parse_any_n6, parse_truncated::<6>());
h!(c18_udp_parse_any_n7, parse_truncated::<7>());
h!(c18_udp_parse_any_n9, parse_truncated::<9>());
