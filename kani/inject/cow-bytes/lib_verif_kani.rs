//! Kani harnesses for `CowBytes`: borrowed (`Temporary`) and owned (`Static`) variants are
//! indistinguishable through every accessor, comparison and hash (C20, last clause), and each
//! operation equals the same operation on a plain byte slice (this also exercises the contract the
//! Verus shim `shim_cowbytes.rs` assumes).  Lengths are concrete per instantiation (no symbolic
//! allocation sizes); contents and split points are symbolic.
#![allow(dead_code, unused_imports)]
use super::*;
use bytes::{Buf, Bytes};
#[cfg(verif_replay)]
use crate::verif_replay_kani as kani;

fn eq_slices(a: &[u8], b: &[u8]) -> bool {
    if a.len() != b.len() {
        return false;
    }
    let mut i = 0;
    while i < a.len() {
        if a[i] != b[i] {
            return false;
        }
        i += 1;
    }
    true
}

struct SumHasher(u64);
impl core::hash::Hasher for SumHasher {
    fn finish(&self) -> u64 {
        self.0
    }
    fn write(&mut self, bytes: &[u8]) {
        let mut i = 0;
        while i < bytes.len() {
            self.0 = self.0.wrapping_mul(31).wrapping_add(bytes[i] as u64);
            i += 1;
        }
    }
}

fn accessors<const N: usize>() {
    let x: [u8; N] = kani::any();
    let t = CowBytes::Temporary(&x[..]);
    let s = CowBytes::Static(Bytes::copy_from_slice(&x));
    assert!(t.len() == N && s.len() == N, "C20.cow.len: both variants report the slice length");
    assert!(t.is_empty() == (N == 0) && s.is_empty() == (N == 0), "C20.cow.is_empty");
    assert!(eq_slices(t.as_ref(), &x) && eq_slices(s.as_ref(), &x), "C20.cow.as_ref: both variants expose the same bytes");
    assert!(t.remaining() == N && s.remaining() == N, "C20.cow.remaining");
    assert!(eq_slices(t.chunk(), &x) && eq_slices(s.chunk(), &x), "C20.cow.chunk: contiguous chunk is the whole remainder");
    assert!(t == s && s == t, "C20.cow.eq: borrowed == owned for equal bytes");
    assert!(t.partial_cmp(&s) == Some(core::cmp::Ordering::Equal), "C20.cow.cmp.equal");
    let mut h1 = SumHasher(7);
    let mut h2 = SumHasher(7);
    core::hash::Hash::hash(&t, &mut h1);
    core::hash::Hash::hash(&s, &mut h2);
    assert!(core::hash::Hasher::finish(&h1) == core::hash::Hasher::finish(&h2), "C20.cow.hash: equal hashes for equal bytes");
    core::mem::forget(s);
}

fn compare_two<const N: usize, const M: usize>() {
    let x: [u8; N] = kani::any();
    let y: [u8; M] = kani::any();
    let tx = CowBytes::Temporary(&x[..]);
    let sx = CowBytes::Static(Bytes::copy_from_slice(&x));
    let ty = CowBytes::Temporary(&y[..]);
    let sy = CowBytes::Static(Bytes::copy_from_slice(&y));
    let want_eq = eq_slices(&x, &y);
    assert!((tx == ty) == want_eq && (sx == sy) == want_eq && (tx == sy) == want_eq && (sx == ty) == want_eq,
        "C20.cow.eq.mixed: equality does not depend on the variant");
    let want = x[..].partial_cmp(&y[..]);
    assert!(tx.partial_cmp(&ty) == want && sx.partial_cmp(&sy) == want && tx.partial_cmp(&sy) == want && sx.partial_cmp(&ty) == want,
        "C20.cow.cmp.mixed: ordering is the lexicographic order of the bytes, whatever the variant");
    core::mem::forget(sx);
    core::mem::forget(sy);
}

fn splitters<const N: usize>() {
    let x: [u8; N] = kani::any();
    let k: usize = kani::any();
    kani::assume(k <= N);
    let which: u8 = kani::any();
    kani::assume(which < 4);
    let mut t = CowBytes::Temporary(&x[..]);
    let mut s = CowBytes::Static(Bytes::copy_from_slice(&x));
    match which {
        0 => {
            let (a, b) = (t.split_to(k), s.split_to(k));
            assert!(eq_slices(a.as_ref(), &x[..k]) && eq_slices(b.as_ref(), &x[..k]), "C20.cow.split_to.head");
            assert!(eq_slices(t.as_ref(), &x[k..]) && eq_slices(s.as_ref(), &x[k..]), "C20.cow.split_to.tail");
            core::mem::forget(b);
        }
        1 => {
            let (a, b) = (t.split_off(k), s.split_off(k));
            assert!(eq_slices(a.as_ref(), &x[k..]) && eq_slices(b.as_ref(), &x[k..]), "C20.cow.split_off.tail");
            assert!(eq_slices(t.as_ref(), &x[..k]) && eq_slices(s.as_ref(), &x[..k]), "C20.cow.split_off.head");
            core::mem::forget(b);
        }
        2 => {
            t.truncate(k);
            s.truncate(k);
            assert!(eq_slices(t.as_ref(), &x[..k]) && eq_slices(s.as_ref(), &x[..k]), "C20.cow.truncate");
        }
        _ => {
            t.advance(k);
            s.advance(k);
            assert!(eq_slices(t.as_ref(), &x[k..]) && eq_slices(s.as_ref(), &x[k..]), "C20.cow.advance");
            assert!(t.remaining() == N - k && s.remaining() == N - k, "C20.cow.advance.remaining");
        }
    }
    core::mem::forget(s);
}

fn into_static_and_getters() {
    let x: [u8; 7] = kani::any();
    let t = CowBytes::Temporary(&x[..]);
    let b = t.clone().into_static();
    assert!(eq_slices(&b, &x), "C20.cow.into_static: same bytes");
    // the big-endian getters the frame decoder relies on (contract assumed by the Verus shim)
    let mut c = t;
    let v8 = c.get_u8();
    let v16 = c.get_u16();
    let v32 = c.get_u32();
    assert!(v8 == x[0], "shim.get_u8");
    assert!(v16 == (x[1] as u16) * 256 + x[2] as u16, "shim.get_u16: big endian");
    assert!(v32 == (x[3] as u32) * 16_777_216 + (x[4] as u32) * 65_536 + (x[5] as u32) * 256 + x[6] as u32, "shim.get_u32: big endian");
    assert!(c.remaining() == 0, "shim.getters.consume");
    core::mem::forget(b);
}

macro_rules! h {
    ($name:ident, $body:expr) => {
        #[cfg_attr(kani, kani::proof)]
        #[cfg_attr(kani, kani::unwind(10))]
        #[cfg_attr(verif_replay, test)]
        fn $name() {
            $body;
        }
    };
}
h!(c20_cow_accessors_n0, accessors::<0>());
h!(c20_cow_accessors_n3, accessors::<3>());
h!(c20_cow_compare_n2_m2, compare_two::<2, 2>());
h!(c20_cow_compare_n1_m2, compare_two::<1, 2>());
h!(c20_cow_compare_n0_m1, compare_two::<0, 1>());
h!(c20_cow_splitters_n3, splitters::<3>());
h!(c20_cow_splitters_n0, splitters::<0>());
h!(c20_cow_into_static_getters, into_static_and_getters());
