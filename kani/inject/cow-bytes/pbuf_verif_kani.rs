//! Kani harnesses (= contracts) for `LongChain`, injected as a child module of `cow_bytes::pbuf`.
//! C20: after every operation the cached length equals the contents, no chunk is empty, and the
//! byte view equals the same operation on a plain byte sequence; an out-of-range argument either
//! panics or leaves the value unchanged (harnesses tagged allow_panic in the registry).
#![allow(dead_code, unused_imports)]
use super::*;
use alloc::vec::Vec;
#[cfg(verif_replay)]
use crate::verif_replay_kani as kani;

const MAXC: usize = 3; // chunks
const MAXB: usize = 3; // bytes per chunk
const CAP: usize = 16;

/// representation invariant demanded by C20 (same as the crate's own `verify_invariants`)
fn wf(c: &LongChain<'_>) -> bool {
    let mut sum = 0usize;
    let mut i = 0;
    while i < c.data.len() {
        let l = c.data[i].len();
        if l == 0 {
            return false;
        }
        sum += l;
        i += 1;
    }
    sum == c.total_remaining_len
}

/// flatten into a fixed array (no allocation)
fn bytes_of(c: &LongChain<'_>) -> ([u8; CAP], usize) {
    let mut out = [0u8; CAP];
    let mut n = 0;
    let mut i = 0;
    while i < c.data.len() {
        let s = c.data[i].as_ref();
        let mut j = 0;
        while j < s.len() {
            if n < CAP {
                out[n] = s[j];
            }
            n += 1;
            j += 1;
        }
        i += 1;
    }
    (out, n)
}

fn same(a: &([u8; CAP], usize), b: &([u8; CAP], usize)) -> bool {
    if a.1 != b.1 {
        return false;
    }
    let mut i = 0;
    while i < a.1 && i < CAP {
        if a.0[i] != b.0[i] {
            return false;
        }
        i += 1;
    }
    true
}

/// a well-formed chain of the given concrete shape (chunk lengths; 0 = no chunk), contents symbolic.
/// Shapes are enumerated by the harness instantiations: a symbolic shape makes allocation sizes
/// symbolic, which CBMC cannot handle (measured: > 20 min per harness).
// NOTE: the backing store is one flat array: `[[u8; B]; C]` indexed by a loop variable gave
// spurious counterexamples in Kani 0.68 (measured; not reproducible on the compiled code).
fn mk_chain<'a>(store: &'a [u8; MAXB * MAXC], lens: [usize; MAXC]) -> LongChain<'a> {
    let mut data = Vec::with_capacity(MAXC + 1);
    let mut total = 0;
    let mut i = 0;
    while i < MAXC {
        if lens[i] > 0 {
            data.push(CowBytes::Temporary(&store[MAXB * i..MAXB * i + lens[i]]));
            total += lens[i];
        }
        i += 1;
    }
    LongChain { data, total_remaining_len: total }
}

/// reference: the plain byte sequence after removing [from, to)
fn cut(b: &([u8; CAP], usize), from: usize, to: usize) -> ([u8; CAP], usize) {
    let mut out = [0u8; CAP];
    let mut n = 0;
    let mut i = 0;
    while i < b.1 && i < CAP {
        if i < from || i >= to {
            out[n] = b.0[i];
            n += 1;
        }
        i += 1;
    }
    (out, n)
}

fn contract_push(lens: [usize; MAXC], el: usize) {
    let store: [u8; MAXB * MAXC] = kani::any();
    let extra: [u8; 2] = kani::any();
    let mut c = mk_chain(&store, lens);
    // el == 0 is the empty segment (out-of-range argument)
    let before = bytes_of(&c);
    c.push(CowBytes::Temporary(&extra[..el]));
    let after = bytes_of(&c);
    assert!(wf(&c), "C20.push.wf: length agrees with contents and no chunk is empty after push");
    let mut want = before;
    let mut j = 0;
    while j < el {
        want.0[want.1] = extra[j];
        want.1 += 1;
        j += 1;
    }
    assert!(same(&after, &want), "C20.push.view: bytes == old bytes ++ segment");
    core::mem::forget(c);
}

fn contract_insert(lens: [usize; MAXC], el: usize, idx: usize) {
    let store: [u8; MAXB * MAXC] = kani::any();
    let extra: [u8; 2] = kani::any();
    let mut c = mk_chain(&store, lens);
    // idx one past the end included: panics (allowed) or unchanged
    let nchunks = c.data.len();
    let before = bytes_of(&c);
    c.insert(idx, CowBytes::Temporary(&extra[..el]));
    let after = bytes_of(&c);
    assert!(wf(&c), "C20.insert.wf: length agrees with contents and no chunk is empty after insert");
    assert!(after.1 == before.1 + el, "C20.insert.len: total length grows by the segment length");
    if el == 0 {
        assert!(same(&after, &before), "C20.insert.empty: an empty segment leaves the value unchanged");
    } else {
        // offset of the idx-th chunk (idx == number of chunks: behind the last one)
        let mut off = 0usize;
        let mut k = 0usize;
        let mut i = 0usize;
        while i < MAXC {
            if lens[i] != 0 {
                if k < idx {
                    off += lens[i];
                }
                k += 1;
            }
            i += 1;
        }
        let mut ok = true;
        let mut j = 0usize;
        while j < after.1 && j < CAP {
            let exp = if j < off { before.0[j] } else if j < off + el { extra[j - off] } else { before.0[j - el] };
            if after.0[j] != exp {
                ok = false;
            }
            j += 1;
        }
        assert!(ok, "C20.insert.view: the segment's bytes appear exactly at the chunk boundary idx, everything else keeps its order");
    }
    core::mem::forget(c);
}

fn contract_truncate(lens: [usize; MAXC], len: usize) {
    let store: [u8; MAXB * MAXC] = kani::any();
    let mut c = mk_chain(&store, lens);
    let before = bytes_of(&c);
    c.truncate(len);
    let after = bytes_of(&c);
    assert!(wf(&c), "C20.truncate.wf: length agrees with contents and no chunk is empty after truncate");
    assert!(c.len() == after.1, "C20.truncate.len: reported length == contents");
    let keep = if len < before.1 { len } else { before.1 };
    assert!(same(&after, &cut(&before, keep, before.1)), "C20.truncate.view: bytes == first min(len, total) bytes");
    core::mem::forget(c);
}

fn contract_split_off(lens: [usize; MAXC], at: usize) {
    let store: [u8; MAXB * MAXC] = kani::any();
    let mut c = mk_chain(&store, lens);
    let before = bytes_of(&c);
    let other = c.split_off(at);
    let a = bytes_of(&c);
    let b = bytes_of(&other);
    assert!(wf(&c) && wf(&other), "C20.split_off.wf: both halves well-formed");
    assert!(at <= before.1, "C20.split_off.range: returning normally implies at <= len");
    assert!(same(&a, &cut(&before, at, before.1)), "C20.split_off.left: self keeps the first `at` bytes");
    assert!(same(&b, &cut(&before, 0, at)), "C20.split_off.right: result holds the rest");
    core::mem::forget(c);
    core::mem::forget(other);
}

fn contract_split_to(lens: [usize; MAXC], at: usize) {
    let store: [u8; MAXB * MAXC] = kani::any();
    let mut c = mk_chain(&store, lens);
    let before = bytes_of(&c);
    let other = c.split_to(at);
    let a = bytes_of(&c);
    let b = bytes_of(&other);
    assert!(wf(&c) && wf(&other), "C20.split_to.wf: both halves well-formed");
    assert!(same(&b, &cut(&before, at, before.1)), "C20.split_to.left: result holds the first `at` bytes");
    assert!(same(&a, &cut(&before, 0, at)), "C20.split_to.right: self keeps the rest");
    core::mem::forget(c);
    core::mem::forget(other);
}

fn contract_advance(lens: [usize; MAXC], cnt: usize) {
    let store: [u8; MAXB * MAXC] = kani::any();
    let mut c = mk_chain(&store, lens);
    let before = bytes_of(&c);
    bytes::Buf::advance(&mut c, cnt);
    let after = bytes_of(&c);
    assert!(cnt <= before.1, "C20.advance.range: returning normally implies cnt <= len");
    assert!(wf(&c), "C20.advance.wf");
    assert!(bytes::Buf::remaining(&c) == after.1, "C20.advance.remaining: remaining == contents");
    assert!(same(&after, &cut(&before, 0, cnt)), "C20.advance.view: the first cnt bytes are gone");
    // Buf contract: chunk is empty only if nothing remains
    assert!(bytes::Buf::chunk(&c).is_empty() == (after.1 == 0), "C20.chunk: no empty chunk while bytes remain");
    core::mem::forget(c);
}

fn contract_remove_pop_clear(lens: [usize; MAXC], which: u8, idx: usize) {
    let store: [u8; MAXB * MAXC] = kani::any();
    let mut c = mk_chain(&store, lens);
    let before = bytes_of(&c);
    if which == 0 {
        let e = c.remove(idx); // idx >= chunks: panics (allowed)
        let after = bytes_of(&c);
        assert!(wf(&c), "C20.remove.wf");
        assert!(after.1 + e.len() == before.1, "C20.remove.len: length drops by the removed chunk");
        // offset of the idx-th chunk (mk_chain stores the non-empty segments only, in order)
        let mut off = 0usize;
        let mut k = 0usize;
        let mut i = 0usize;
        while i < MAXC {
            if lens[i] != 0 {
                if k < idx {
                    off += lens[i];
                }
                k += 1;
            }
            i += 1;
        }
        assert!(same(&after, &cut(&before, off, off + e.len())), "C20.remove.view: exactly the removed chunk's bytes are gone, the others keep their order");
    } else if which == 1 {
        let e = c.pop();
        let after = bytes_of(&c);
        assert!(wf(&c), "C20.pop.wf");
        match e {
            Some(e) => {
                assert!(after.1 + e.len() == before.1, "C20.pop.len");
                assert!(same(&after, &cut(&before, after.1, before.1)), "C20.pop.view: the last chunk's bytes are gone");
            }
            None => assert!(before.1 == 0 && after.1 == 0, "C20.pop.none: only an empty chain pops None"),
        }
    } else {
        c.clear();
        assert!(wf(&c) && c.is_empty() && c.len() == 0, "C20.clear");
    }
    core::mem::forget(c);
}

fn contract_truncate_huge(lens: [usize; MAXC], len: usize) {
    let store: [u8; MAXB * MAXC] = kani::any();
    let mut c = mk_chain(&store, lens);
    let total = c.total_remaining_len;
    c.truncate(len);
    assert!(wf(&c), "C20.truncate.huge.wf: a length past the end leaves length and contents in agreement");
    assert!(c.len() == total, "C20.truncate.huge.len: a length past the end leaves the value unchanged");
    core::mem::forget(c);
}

// Arguments are enumerated concretely inside each harness (a symbolic split point makes
// `Vec::split_off`/memmove sizes symbolic: measured 60-150 s per harness instead of 1-3 s).
// The out-of-range value comes last: its (permitted) panic ends the path.
macro_rules! hq {
    ($name:ident, $body:block) => {
        #[cfg_attr(kani, kani::proof)]
        #[cfg_attr(kani, kani::unwind(12))]
        #[cfg_attr(verif_replay, test)]
        fn $name() $body
    };
}
fn total_of(lens: [usize; MAXC]) -> usize {
    lens[0] + lens[1] + lens[2]
}
fn chunks_of(lens: [usize; MAXC]) -> usize {
    (lens[0] > 0) as usize + (lens[1] > 0) as usize + (lens[2] > 0) as usize
}
fn sweep_push(lens: [usize; MAXC]) {
    let mut el = 0;
    while el <= 2 {
        contract_push(lens, el);
        el += 1;
    }
}
fn sweep_insert(lens: [usize; MAXC], el: usize) {
    let mut idx = 0;
    while idx <= chunks_of(lens) + 1 {
        contract_insert(lens, el, idx);
        idx += 1;
    }
}
fn sweep_truncate(lens: [usize; MAXC]) {
    let mut len = 0;
    while len <= total_of(lens) + 1 {
        contract_truncate(lens, len);
        len += 1;
    }
    contract_truncate_huge(lens, total_of(lens) + 1);
    contract_truncate_huge(lens, usize::MAX);
}
fn sweep_split_off(lens: [usize; MAXC]) {
    let mut at = 0;
    while at <= total_of(lens) + 1 {
        contract_split_off(lens, at);
        at += 1;
    }
}
fn sweep_split_to(lens: [usize; MAXC]) {
    let mut at = 0;
    while at <= total_of(lens) + 1 {
        contract_split_to(lens, at);
        at += 1;
    }
}
fn sweep_advance(lens: [usize; MAXC]) {
    let mut cnt = 0;
    while cnt <= total_of(lens) + 1 {
        contract_advance(lens, cnt);
        cnt += 1;
    }
}
fn sweep_rpc(lens: [usize; MAXC]) {
    contract_remove_pop_clear(lens, 1, 0);
    contract_remove_pop_clear(lens, 2, 0);
    let mut idx = 0;
    while idx <= chunks_of(lens) {
        contract_remove_pop_clear(lens, 0, idx);
        idx += 1;
    }
}
// cheap operations: swept over every argument value in one harness per shape
hq!(c20_chain_push_s000, { sweep_push([0, 0, 0]) });
hq!(c20_chain_push_s120, { sweep_push([1, 2, 0]) });
hq!(c20_chain_push_s213, { sweep_push([2, 1, 3]) });
hq!(c20_chain_insert_empty_s000, { sweep_insert([0, 0, 0], 0) });
hq!(c20_chain_insert_empty_s120, { sweep_insert([1, 2, 0], 0) });
hq!(c20_chain_insert_s000, { sweep_insert([0, 0, 0], 2) });
hq!(c20_chain_insert_s120, { sweep_insert([1, 2, 0], 2) });
hq!(c20_chain_insert_s213, { sweep_insert([2, 1, 3], 1) });
hq!(c20_chain_remove_pop_clear_s000, { sweep_rpc([0, 0, 0]) });
hq!(c20_chain_remove_pop_clear_s120, { sweep_rpc([1, 2, 0]) });
hq!(c20_chain_remove_pop_clear_s213, { sweep_rpc([2, 1, 3]) });
hq!(c20_chain_truncate_huge_s000, { contract_truncate_huge([0, 0, 0], 1); contract_truncate_huge([0, 0, 0], usize::MAX) });
// expensive operations (LongChain::split_off/truncate/advance cost CBMC 30-300 s per *single concrete*
// call, measured): one call per harness, thorough tier; the unbounded statement is the Verus proof
hq!(c20_chain_split_off_s120_at0, { contract_split_off([1, 2, 0], 0) });
hq!(c20_chain_split_off_s120_at1, { contract_split_off([1, 2, 0], 1) });
hq!(c20_chain_split_off_s120_at2, { contract_split_off([1, 2, 0], 2) });
hq!(c20_chain_split_off_s120_at3, { contract_split_off([1, 2, 0], 3) });
hq!(c20_chain_split_off_s120_at4_oob, { contract_split_off([1, 2, 0], 4) });
// a split point strictly inside a chunk that is NOT the last one (the case a seeded change needed)
hq!(c20_chain_split_off_s210_at1, { contract_split_off([2, 1, 0], 1) });
hq!(c20_chain_split_to_s120_at2, { contract_split_to([1, 2, 0], 2) });
hq!(c20_chain_advance_s120_c0, { contract_advance([1, 2, 0], 0) });
hq!(c20_chain_advance_s120_c2, { contract_advance([1, 2, 0], 2) });
hq!(c20_chain_advance_s120_c3, { contract_advance([1, 2, 0], 3) });
hq!(c20_chain_advance_s120_c4_oob, { contract_advance([1, 2, 0], 4) });
hq!(c20_chain_truncate_s120_l0, { contract_truncate([1, 2, 0], 0) });
// truncate with 0 < len <= total on a 2-chunk chain did not finish in 40 min of CBMC time: Verus only
