//! Stand-in for the `kani` crate when a harness is replayed by the ordinary
//! toolchain on the real code (`--cfg verif_replay`): `any()` reads the byte
//! vectors Kani's concrete playback printed, in call order, from the file named
//! by VERIF_REPLAY_FILE (one line of hex per `any()` call).
#![allow(dead_code, missing_docs, unused_macros, unused_imports)]
#[allow(rust_2018_idioms, unused_extern_crates)]
extern crate std;
use std::cell::RefCell;
use std::vec::Vec;
use std::string::String;

std::thread_local! {
    static VALUES: RefCell<Option<(Vec<Vec<u8>>, usize)>> = const { RefCell::new(None) };
}

fn next_bytes(n: usize) -> Vec<u8> {
    VALUES.with(|v| {
        let mut v = v.borrow_mut();
        if v.is_none() {
            let path = std::env::var("VERIF_REPLAY_FILE").expect("VERIF_REPLAY_FILE not set");
            let text = std::fs::read_to_string(path).expect("cannot read replay file");
            let mut all = Vec::new();
            for line in text.lines() {
                let line = line.trim();
                if line.is_empty() || line.starts_with('#') {
                    continue;
                }
                let hex: String = line.chars().filter(|c| c.is_ascii_hexdigit()).collect();
                let bytes: Vec<u8> = (0..hex.len() / 2)
                    .map(|i| u8::from_str_radix(&hex[2 * i..2 * i + 2], 16).unwrap())
                    .collect();
                all.push(bytes);
            }
            *v = Some((all, 0));
        }
        let (all, idx) = v.as_mut().unwrap();
        let mut b = if *idx < all.len() { all[*idx].clone() } else { Vec::new() };
        *idx += 1;
        b.resize(n, 0);
        b
    })
}

/// Types whose every bit pattern produced by Kani's playback is valid.
pub trait Replayable: Sized {
    fn from_replay() -> Self;
}
macro_rules! prim {
    ($($t:ty),*) => {$(
        impl Replayable for $t {
            fn from_replay() -> Self {
                let b = next_bytes(core::mem::size_of::<$t>());
                let mut a = [0u8; core::mem::size_of::<$t>()];
                a.copy_from_slice(&b);
                <$t>::from_le_bytes(a)
            }
        }
    )*};
}
prim!(u8, u16, u32, u64, u128, usize, i8, i16, i32, i64, isize);
impl Replayable for bool {
    fn from_replay() -> Self {
        next_bytes(1)[0] & 1 == 1
    }
}
// Kani's `Arbitrary for [T; N]` calls `any()` once per element
impl<T: Replayable, const N: usize> Replayable for [T; N] {
    fn from_replay() -> Self {
        core::array::from_fn(|_| T::from_replay())
    }
}

pub fn any<T: Replayable>() -> T {
    T::from_replay()
}

pub fn assume(c: bool) {
    if !c {
        // the recorded values do not satisfy a precondition: not a reproduction
        std::println!("VERIF-REPLAY: assumption not met");
        std::process::exit(3);
    }
}

macro_rules! verif_cover {
    ($($t:tt)*) => {};
}
pub(crate) use verif_cover as cover;
