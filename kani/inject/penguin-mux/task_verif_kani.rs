//! Kani harnesses (= contracts) for the multiplexor core, injected as a child module of
//! `penguin_mux::task` (so that private methods of `Task`, `FlowSlot`, `EstablishedStreamData` and
//! the `pub(super)` fields of `MuxStream` are reachable).  Built against /verif/kani/tokio-model
//! (assumed channel contract; see DESIGN.md 2.2).  C02 C03 C04 C05 C06 C07 C10 C11 C15.
#![allow(dead_code, unused_imports, unused_variables)]
use super::*;
use crate::frame::{BindType, Frame, OpCode};
use crate::loom::Ordering;
use alloc::vec::Vec;
use core::future::Future;
use core::pin::Pin;
use core::task::Waker;
use core::time::Duration;
use tokio::sync::oneshot;
// Kani's compiler ICEs on the `catch_unwind` intrinsic (reached through waker/drop code); under
// panic=abort calling the closure directly is exact.
#[cfg(kani)]
use std::panic::catch_unwind;
#[cfg(kani)]
fn call_through<F: FnOnce() -> R + std::panic::UnwindSafe, R>(f: F) -> std::thread::Result<R> {
    Ok(f())
}
#[cfg(verif_replay)]
use crate::verif_replay_kani as kani;

pub(crate) struct NullWs;
impl WebSocket for NullWs {
    fn poll_ready_unpin(&mut self, _cx: &mut Context<'_>) -> Poll<Result<()>> {
        Poll::Ready(Ok(()))
    }
    fn start_send_unpin(&mut self, _item: Message) -> Result<()> {
        Ok(())
    }
    fn poll_flush_unpin(&mut self, _cx: &mut Context<'_>) -> Poll<Result<()>> {
        Poll::Ready(Ok(()))
    }
    fn poll_close_unpin(&mut self, _cx: &mut Context<'_>) -> Poll<Result<()>> {
        Poll::Ready(Ok(()))
    }
    fn poll_next_unpin(&mut self, _cx: &mut Context<'_>) -> Poll<Option<Result<Message>>> {
        Poll::Pending
    }
}

#[derive(Clone, Copy)]
pub(crate) struct ZeroTime;
impl TimestampProvider for ZeroTime {
    fn now() -> Self {
        ZeroTime
    }
    fn duration_since(&self, _earlier: Self) -> Duration {
        Duration::ZERO
    }
}

pub(crate) struct World {
    pub task: Task<NullWs, ZeroTime>,
    pub tx_msg_rx: mpsc::UnboundedReceiver<Message>,
    pub dropped_rx: mpsc::UnboundedReceiver<u32>,
    pub con_rx: mpsc::Receiver<MuxStream>,
    pub dgram_rx: mpsc::Receiver<Datagram>,
    pub bnd_rx: Option<mpsc::Receiver<BindRequest<'static>>>,
}

pub(crate) fn world(rwnd: u32, thr: u32, bind: bool, dgram_cap: usize) -> World {
    let (tx_msg_tx, tx_msg_rx) = mpsc::unbounded_channel();
    let (dropped_flows_tx, dropped_rx) = mpsc::unbounded_channel();
    let (con_recv_stream_tx, con_rx) = mpsc::channel(2);
    let (datagram_tx, dgram_rx) = mpsc::channel(dgram_cap);
    let (bnd_request_tx, bnd_rx) = if bind {
        let (t, r) = mpsc::channel(2);
        (Some(t), Some(r))
    } else {
        (None, None)
    };
    let task = Task {
        ws: Mutex::new(NullWs),
        flows: Arc::new(RwLock::new(HashMap::with_hasher(IntHasher::default()))),
        tx_msg_tx,
        dropped_flows_tx,
        con_recv_stream_tx,
        last_pong_timestamp: Mutex::new(ZeroTime),
        default_rwnd_threshold: thr,
        rwnd,
        datagram_tx,
        bnd_request_tx,
        keepalive_interval: OptionalDuration::NONE,
        keepalive_timeout: OptionalDuration::NONE,
    };
    World { task, tx_msg_rx, dropped_rx, con_rx, dgram_rx, bnd_rx }
}

/// `Task::new_stream_shared` for harness modules outside `task` (the method is private to it)
pub(crate) fn mk_stream(w: &World, id: u32, credit: u32) -> (MuxStream, EstablishedStreamData) {
    w.task.new_stream_shared(id, credit, Bytes::new(), 0)
}

pub(crate) fn cx() -> Context<'static> {
    Context::from_waker(Waker::noop())
}

/// what a queued message is, read by index from its bytes (no `==` on `Bytes`)
#[derive(Clone, Copy, PartialEq, Eq)]
pub(crate) struct Seen {
    pub op: u8,
    pub id: u32,
    pub arg: u32,
    pub len: usize,
}
pub(crate) const NOTHING: Seen = Seen { op: 0xFF, id: 0, arg: 0, len: 0 };

pub(crate) fn be32(b: &[u8], i: usize) -> u32 {
    (b[i] as u32) * 16_777_216 + (b[i + 1] as u32) * 65_536 + (b[i + 2] as u32) * 256 + b[i + 3] as u32
}

/// take the next queued outbound message
pub(crate) fn next_out(rx: &mut mpsc::UnboundedReceiver<Message>) -> (Seen, Option<Bytes>) {
    match rx.try_recv() {
        Ok(Message::Binary(b)) => {
            let op = b[0] % 16;
            let id = be32(&b, 1);
            let arg = if b.len() >= 9 { be32(&b, 5) } else { 0 };
            (Seen { op, id, arg, len: b.len() }, Some(b))
        }
        Ok(_) => (Seen { op: 0xFE, id: 0, arg: 0, len: 0 }, None),
        Err(_) => (NOTHING, None),
    }
}

/// like `next_out`, but the message itself is leaked: dropping a `Bytes` goes through its vtable,
/// and CBMC explores every drop implementation of the `bytes` crate for it
pub(crate) fn next_seen(rx: &mut mpsc::UnboundedReceiver<Message>) -> Seen {
    let (seen, b) = next_out(rx);
    core::mem::forget(b);
    seen
}

pub(crate) fn out_empty(rx: &mut mpsc::UnboundedReceiver<Message>) -> bool {
    rx.len() == 0
}

// ============================================================================ C03 / C04
/// take_credit: `poll_obtain_write_permission` over all (credit, finish_sent)
#[cfg_attr(kani, kani::proof)]
#[cfg_attr(kani, kani::stub(catch_unwind, call_through))]
#[cfg_attr(kani, kani::unwind(3))]
#[cfg_attr(verif_replay, test)]
fn c03_take_credit() {
    let w = world(4, 2, false, 1);
    let credit: u32 = kani::any();
    let fin: bool = kani::any();
    let (s, d) = w.task.new_stream_shared(7, credit, Bytes::new(), 0);
    s.finish_sent.store(fin, Ordering::Relaxed);
    let c = cx();
    let r = s.poll_obtain_write_permission(&c);
    let post = s.psh_send_remaining.load(Ordering::Relaxed);
    kani::cover!(matches!(r, Poll::Pending));
    kani::cover!(matches!(r, Poll::Ready(Some(()))));
    match r {
        Poll::Ready(Some(())) => assert!(!fin && credit > 0 && post == credit - 1, "C03.take.ok: permission only with credit > 0 and stream open; exactly one unit consumed"),
        Poll::Ready(None) => assert!(fin && post == credit, "C03.take.closed: refused (BrokenPipe) only when writes are closed; credit untouched"),
        Poll::Pending => assert!(!fin && credit == 0 && post == 0, "C03.take.pending: waits only when credit is 0; credit untouched"),
    }
    core::mem::forget((s, d, w));
}

/// add_credit: `acknowledge(n)` adds exactly n
#[cfg_attr(kani, kani::proof)]
#[cfg_attr(kani, kani::stub(catch_unwind, call_through))]
#[cfg_attr(kani, kani::unwind(3))]
#[cfg_attr(verif_replay, test)]
fn c03_add_credit() {
    let w = world(4, 2, false, 1);
    let credit: u32 = kani::any();
    let n: u32 = kani::any();
    // no overflow: between conforming endpoints credit + n never exceeds the advertised window
    kani::assume(credit.checked_add(n).is_some());
    let (s, d) = w.task.new_stream_shared(7, credit, Bytes::new(), 0);
    d.acknowledge(n);
    let post = s.psh_send_remaining.load(Ordering::Relaxed);
    assert!(post == credit + n, "C03.add: Acknowledge(n) increases the credit by exactly n");
    assert!(!s.finish_sent.load(Ordering::Relaxed), "C03.add.frame: Acknowledge does not close the stream");
    core::mem::forget((s, d, w));
}

/// init_credit + C04 threshold: `new_stream_shared` for every accepted Options and every peer window
#[cfg_attr(kani, kani::proof)]
#[cfg_attr(kani, kani::stub(catch_unwind, call_through))]
#[cfg_attr(kani, kani::unwind(3))]
#[cfg_attr(verif_replay, test)]
fn c03_init_credit_c04_threshold() {
    let rwnd: u32 = kani::any();
    let thr: u32 = kani::any();
    let peer: u32 = kani::any();
    let id: u32 = kani::any();
    let port: u16 = kani::any();
    kani::assume(rwnd >= 1 && thr >= 1); // what Options accepts
    let w = world(rwnd, thr, false, 1);
    let (s, d) = w.task.new_stream_shared(id, peer, Bytes::new(), port);
    kani::cover!(thr > rwnd && peer > rwnd);
    assert!(s.psh_send_remaining.load(Ordering::Relaxed) == peer, "C03.init.credit: initial send credit == the window the peer advertised");
    assert!(s.psh_recvd_since == 0 && !s.finish_sent.load(Ordering::Relaxed), "C03.init.fresh: counters start at zero, stream open");
    assert!(s.flow_id == id && s.dest_port == port, "C07.init.fields: stream carries the flow id and port");
    assert!(s.rwnd_threshold <= rwnd, "C04.threshold: the acknowledgement threshold never exceeds the own advertised window (else the peer's credit can run out with no Acknowledge due)");
    core::mem::forget((s, d, w));
}

/// the inbound queue of a new stream holds exactly `rwnd` frames (what is advertised)
#[cfg_attr(kani, kani::proof)]
#[cfg_attr(kani, kani::stub(catch_unwind, call_through))]
#[cfg_attr(kani, kani::unwind(6))]
#[cfg_attr(verif_replay, test)]
fn c03_queue_capacity_is_rwnd() {
    let rwnd: u32 = kani::any();
    kani::assume(rwnd >= 1 && rwnd <= 3);
    let w = world(rwnd, 1, false, 1);
    let (s, d) = w.task.new_stream_shared(7, 1, Bytes::new(), 0);
    let slot = FlowSlot::Established(d);
    let mut k = 0;
    while k < rwnd {
        let r = slot.dispatch(Bytes::from_static(b"x"));
        assert!(matches!(r, Some(Ok(()))), "C03+C10.queue.accepts: rwnd frames fit into the inbound queue (a peer that stays within the advertised window is never refused)");
        k += 1;
    }
    let r = slot.dispatch(Bytes::from_static(b"x"));
    assert!(matches!(r, Some(Err(TrySendError::Full(())))), "C03+C10.queue.full: frame rwnd+1 is refused as Full (-> Reset of that flow), never blocks");
    core::mem::forget((s, slot, w));
}

/// ack_emit: `poll_for_push` -> `increment_psh_recvd_since`, all (since, threshold)
#[cfg_attr(kani, kani::proof)]
#[cfg_attr(kani, kani::stub(catch_unwind, call_through))]
#[cfg_attr(kani, kani::unwind(3))]
#[cfg_attr(verif_replay, test)]
fn c03_ack_emit() {
    let mut w = world(4, 2, false, 1);
    let since: u32 = kani::any();
    let thr: u32 = kani::any();
    kani::assume(since < u32::MAX);
    let (mut s, d) = w.task.new_stream_shared(9, 1, Bytes::new(), 0);
    s.psh_recvd_since = since;
    s.rwnd_threshold = thr;
    d.sender.as_ref().unwrap().try_send(Bytes::from_static(b"ab")).ok();
    let mut c = cx();
    let r = s.poll_for_push(&mut c);
    let seen = next_seen(&mut w.tx_msg_rx);
    kani::cover!(seen.op == 1);
    kani::cover!(seen.op == 0xFF);
    assert!(matches!(r, Poll::Ready(2)), "C02.read.len: the queued frame is handed to the reader");
    if seen == NOTHING {
        assert!(s.psh_recvd_since == since + 1, "C03.ack.none: without an Acknowledge the consumed counter grows by one");
    } else {
        assert!(seen.op == 1 && seen.id == 9, "C03.ack.frame: the only frame a read may emit is Acknowledge of this flow");
        assert!(seen.arg >= 1 && seen.arg <= since + 1, "C03.ack.bound: never acknowledges more than was consumed");
        assert!(s.psh_recvd_since == since + 1 - seen.arg, "C03.ack.once: acknowledged frames are subtracted (no frame acknowledged twice)");
    }
    assert!(out_empty(&mut w.tx_msg_rx), "C03.ack.single: at most one frame per consumed frame");
    if thr >= 1 && since < thr {
        assert!(s.psh_recvd_since < thr, "C03.ack.threshold: the unacknowledged count stays below the threshold");
    }
    core::mem::forget((s, d, w));
}

// ============================================================================ C02 / C05 writer
/// STATE: 0 = open with credit >= 1 (symbolic), 1 = open with credit 0, 2 = writes closed (credit symbolic).
/// The three instantiations together cover every (credit, finish_sent); the state is concrete per
/// harness so that CBMC never merges the "frame queued" and "nothing queued" paths (measured: > 9 GB).
fn write_contract<const N: usize, const STATE: u8>() {
    let mut w = world(4, 2, false, 1);
    let credit: u32 = if STATE == 1 { 0 } else { kani::any() };
    if STATE == 0 {
        kani::assume(credit >= 1);
    }
    let fin = STATE == 2;
    let id: u32 = kani::any();
    let data: [u8; N] = kani::any();
    let (s, d) = w.task.new_stream_shared(id, credit, Bytes::new(), 0);
    s.finish_sent.store(fin, Ordering::Relaxed);
    let c = cx();
    // `AsyncWrite::poll_write` is `ready!(poll_write_push(..)).ok_or(BrokenPipe)?; Ready(Ok(buf.len()))`:
    // the contract is stated on `poll_write_push`; the wrapper is covered by c02_poll_write_wrapper
    let r = s.poll_write_push(&c, &data);
    let post = s.psh_send_remaining.load(Ordering::Relaxed);
    match STATE {
        0 => {
            assert!(matches!(r, Poll::Ready(Some(()))), "C03.write.ok: with credit and an open stream the write goes through");
            if N > 0 {
                assert!(post == credit - 1, "C03.write.credit: one write consumes exactly one unit of credit");
            } else {
                assert!(post == credit || post == credit - 1, "C03.write_zero.credit: a zero-length write takes at most one unit");
            }
            if N == 0 {
                // C05: a zero-length write must not reach the peer as a frame its reader takes for EOF
                assert!(w.tx_msg_rx.len() == 0, "C05.write_zero: a zero-length write puts no empty Push on the wire");
            } else {
                assert!(w.tx_msg_rx.len() == 1, "C02.write.single: exactly one frame per write");
                let (seen, b) = next_out(&mut w.tx_msg_rx);
                assert!(seen.op == 4 && seen.id == id && seen.len == 5 + N, "C02.write.frame: a Push of this flow with the payload length");
                let b = b.unwrap();
                let mut i = 0;
                while i < N {
                    assert!(b[5 + i] == data[i], "C02.write.bytes: payload bytes are the written bytes, in order");
                    i += 1;
                }
                core::mem::forget(b);
            }
        }
        1 => {
            assert!(matches!(r, Poll::Pending), "C03.write.pending: without credit the write waits");
            assert!(post == 0 && w.tx_msg_rx.len() == 0, "C03.write.pending.nothing: and sends nothing, takes nothing");
        }
        _ => {
            assert!(matches!(r, Poll::Ready(None)), "C05.write.closed: after shutdown/abort a write is refused (BrokenPipe)");
            assert!(post == credit && w.tx_msg_rx.len() == 0, "C05.write.nothing: a refused write transmits nothing and takes no credit");
        }
    }
    core::mem::forget((s, d, w));
}

/// the `AsyncWrite::poll_write` wrapper on an open stream with credit: Ok(len), one frame
#[cfg_attr(kani, kani::proof)]
#[cfg_attr(kani, kani::stub(catch_unwind, call_through))]
#[cfg_attr(kani, kani::unwind(6))]
#[cfg_attr(verif_replay, test)]
fn c02_poll_write_wrapper() {
    let mut w = world(4, 2, false, 1);
    let data: [u8; 2] = kani::any();
    let (mut s, d) = w.task.new_stream_shared(3, 1, Bytes::new(), 0);
    let mut c = cx();
    let r = tokio::io::AsyncWrite::poll_write(Pin::new(&mut s), &mut c, &data);
    assert!(matches!(r, Poll::Ready(Ok(2))), "C02.write.n: a successful write reports the whole buffer");
    assert!(w.tx_msg_rx.len() == 1 && s.psh_send_remaining.load(Ordering::Relaxed) == 0, "C03.write.wrapper: one frame, one unit of credit");
    core::mem::forget((r, s, d, w));
}

#[cfg_attr(kani, kani::proof)]
#[cfg_attr(kani, kani::stub(catch_unwind, call_through))]
#[cfg_attr(kani, kani::unwind(6))]
#[cfg_attr(verif_replay, test)]
fn c02_write_push_n3() {
    write_contract::<3, 0>();
}

#[cfg_attr(kani, kani::proof)]
#[cfg_attr(kani, kani::stub(catch_unwind, call_through))]
#[cfg_attr(kani, kani::unwind(6))]
#[cfg_attr(verif_replay, test)]
fn c03_write_without_credit_waits() {
    write_contract::<3, 1>();
}

#[cfg_attr(kani, kani::proof)]
#[cfg_attr(kani, kani::stub(catch_unwind, call_through))]
#[cfg_attr(kani, kani::unwind(6))]
#[cfg_attr(verif_replay, test)]
fn c05_write_after_close_refused() {
    write_contract::<3, 2>();
}

#[cfg_attr(kani, kani::proof)]
#[cfg_attr(kani, kani::stub(catch_unwind, call_through))]
#[cfg_attr(kani, kani::unwind(6))]
#[cfg_attr(verif_replay, test)]
fn c05_write_zero_length() {
    write_contract::<0, 0>();
}

/// vectored write of three slices of concrete lengths (A, B, C; 0 = empty slice): one Push carrying
/// the concatenation of ALL slices, the total length reported; nothing at all if the total is 0
fn writev_contract<const A: usize, const B: usize, const C: usize>() {
    let mut w = world(4, 2, false, 1);
    let id: u32 = kani::any();
    let a: [u8; A] = kani::any();
    let b: [u8; B] = kani::any();
    let c: [u8; C] = kani::any();
    let (mut s, d) = w.task.new_stream_shared(id, 1, Bytes::new(), 0);
    let mut cxx = cx();
    let bufs = [std::io::IoSlice::new(&a), std::io::IoSlice::new(&b), std::io::IoSlice::new(&c)];
    let r = tokio::io::AsyncWrite::poll_write_vectored(Pin::new(&mut s), &mut cxx, &bufs);
    let total = A + B + C;
    assert!(matches!(&r, Poll::Ready(Ok(n)) if *n == total), "C02.writev.n: vectored write reports the total length of all slices");
    core::mem::forget(r);
    if total == 0 {
        assert!(w.tx_msg_rx.len() == 0, "C05.writev_zero: a vectored write of only empty slices puts no empty Push on the wire");
    } else {
        assert!(w.tx_msg_rx.len() == 1, "C02.writev.single: exactly one frame");
        let (seen, m) = next_out(&mut w.tx_msg_rx);
        assert!(seen.op == 4 && seen.id == id && seen.len == 5 + total, "C02.writev.frame: one Push whose payload has the total length (no slice dropped)");
        let m = m.unwrap();
        let mut i = 0;
        while i < A {
            assert!(m[5 + i] == a[i], "C02.writev.bytes.a: first slice first");
            i += 1;
        }
        let mut j = 0;
        while j < B {
            assert!(m[5 + A + j] == b[j], "C02.writev.bytes.b: second slice next");
            j += 1;
        }
        let mut k = 0;
        while k < C {
            assert!(m[5 + A + B + k] == c[k], "C02.writev.bytes.c: slices after an empty slice are still sent");
            k += 1;
        }
        core::mem::forget(m);
        assert!(s.psh_send_remaining.load(Ordering::Relaxed) == 0, "C03.writev.credit: one unit of credit per frame");
    }
    core::mem::forget((s, d, w));
}

// NOTE (measured): instantiations with data, e.g. writev_contract::<2, 1, 0>() or <2, 0, 1>(), ran out
// of 10 GB in CBMC (drop glue of `Vec<CowBytes>` inside the frame); only the all-empty case is tractable.
// A vectored write that drops a slice is therefore NOT detected by this framework.
#[cfg_attr(kani, kani::proof)]
#[cfg_attr(kani, kani::stub(catch_unwind, call_through))]
#[cfg_attr(kani, kani::unwind(6))]
#[cfg_attr(verif_replay, test)]
fn c05_write_vectored_all_empty() {
    writev_contract::<0, 0, 0>();
}

/// vectored write [1 byte, EMPTY, 2 bytes]: the slices behind the empty one are still sent
#[cfg_attr(kani, kani::proof)]
#[cfg_attr(kani, kani::stub(catch_unwind, call_through))]
#[cfg_attr(kani, kani::unwind(6))]
#[cfg_attr(verif_replay, test)]
fn c02_write_vectored_gap() {
    writev_contract::<1, 0, 2>();
}

/// `do_shutdown`: first call emits exactly one Finish, later calls nothing; writes then fail
#[cfg_attr(kani, kani::proof)]
#[cfg_attr(kani, kani::stub(catch_unwind, call_through))]
#[cfg_attr(kani, kani::unwind(10))]
#[cfg_attr(verif_replay, test)]
fn c05_do_shutdown() {
    let mut w = world(4, 2, false, 1);
    let id: u32 = kani::any();
    let (s, d) = w.task.new_stream_shared(id, 3, Bytes::new(), 0);
    s.do_shutdown();
    let seen = next_seen(&mut w.tx_msg_rx);
    assert!(seen.op == 3 && seen.id == id && seen.len == 5, "C05.shutdown.finish: shutdown sends one Finish for this flow");
    assert!(out_empty(&mut w.tx_msg_rx), "C05.shutdown.single");
    assert!(s.finish_sent.load(Ordering::Relaxed), "C05.shutdown.flag: later writes are blocked");
    assert!(d.sender.is_some() && s.psh_send_remaining.load(Ordering::Relaxed) == 3, "C05.shutdown.halfclose: the read direction and the credit are untouched");
    s.do_shutdown();
    assert!(out_empty(&mut w.tx_msg_rx), "C05.shutdown.once: a second shutdown sends nothing");
    let c = cx();
    assert!(matches!(s.poll_obtain_write_permission(&c), Poll::Ready(None)), "C05.shutdown.brokenpipe: writes after shutdown are refused");
    core::mem::forget((s, d, w));
}

// ============================================================================ C02 / C05 reader
/// FIFO + remainder: queue [a(2), b(1)], consume in two steps; nothing skipped or duplicated
fn reader_fifo_contract<const K: usize>() {
    let w = world(4, 4, false, 1);
    let a: [u8; 2] = kani::any();
    let b: [u8; 1] = kani::any();
    let (mut s, d) = w.task.new_stream_shared(9, 1, Bytes::new(), 0);
    let slot = FlowSlot::Established(d);
    assert!(matches!(slot.dispatch(Bytes::copy_from_slice(&a)), Some(Ok(()))), "C02.dispatch.a");
    assert!(matches!(slot.dispatch(Bytes::copy_from_slice(&b)), Some(Ok(()))), "C02.dispatch.b");
    let mut c = cx();
    let k: usize = K;
    {
        let r = tokio::io::AsyncBufRead::poll_fill_buf(Pin::new(&mut s), &mut c);
        if let Poll::Ready(Ok(x)) = &r {
            assert!(x.len() == 2 && x[0] == a[0] && x[1] == a[1], "C02.read.first: the first frame's bytes come first");
        } else {
            assert!(false, "C02.read.ready: queued data is readable at once");
        }
        core::mem::forget(r); // an io::Result must not be dropped: CBMC explores io::Error's drop glue
    }
    tokio::io::AsyncBufRead::consume(Pin::new(&mut s), k);
    {
        let r = tokio::io::AsyncBufRead::poll_fill_buf(Pin::new(&mut s), &mut c);
        if let Poll::Ready(Ok(x)) = &r {
            if k < 2 {
                assert!(x.len() == 2 - k && x[0] == a[k], "C02.read.remainder: unconsumed bytes are kept and returned next, not skipped");
            } else {
                assert!(x.len() == 1 && x[0] == b[0], "C02.read.next: then the next frame, in order");
            }
        } else {
            assert!(false, "C02.read.ready2");
        }
        core::mem::forget(r);
    }
    core::mem::forget((s, slot, w));
}

#[cfg_attr(kani, kani::proof)]
#[cfg_attr(kani, kani::stub(catch_unwind, call_through))]
#[cfg_attr(kani, kani::unwind(6))]
#[cfg_attr(verif_replay, test)]
fn c02_reader_fifo_consume0() {
    reader_fifo_contract::<0>();
}

#[cfg_attr(kani, kani::proof)]
#[cfg_attr(kani, kani::stub(catch_unwind, call_through))]
#[cfg_attr(kani, kani::unwind(6))]
#[cfg_attr(verif_replay, test)]
fn c02_reader_fifo_consume1() {
    reader_fifo_contract::<1>();
}

#[cfg_attr(kani, kani::proof)]
#[cfg_attr(kani, kani::stub(catch_unwind, call_through))]
#[cfg_attr(kani, kani::unwind(6))]
#[cfg_attr(verif_replay, test)]
fn c02_reader_fifo_consume2() {
    reader_fifo_contract::<2>();
}

/// EOF contract over the pair dispatcher -> reader: the reader reports end-of-stream only when the
/// inbound queue is closed and drained -- for every queued payload length, including 0
fn reader_eof_contract<const L: usize>() {
    let w = world(4, 4, false, 1);
    let p: [u8; L] = kani::any();
    let (mut s, d) = w.task.new_stream_shared(9, 1, Bytes::new(), 0);
    let mut slot = FlowSlot::Established(d);
    // the peer's Push(p) arrives (what process_frame does with it), then one more byte, sender stays open
    let r1 = slot.dispatch(Bytes::copy_from_slice(&p));
    let r2 = slot.dispatch(Bytes::from_static(b"z"));
    assert!(matches!(r1, Some(Ok(()))) && matches!(r2, Some(Ok(()))), "C02.dispatch.ok");
    let mut c = cx();
    let mut eof_seen = false;
    let mut polls = 0;
    while polls < 2 {
        let r = tokio::io::AsyncBufRead::poll_fill_buf(Pin::new(&mut s), &mut c);
        let mut n = 0;
        if let Poll::Ready(Ok(x)) = &r {
            if x.is_empty() {
                eof_seen = true;
            }
            n = x.len();
        }
        core::mem::forget(r);
        tokio::io::AsyncBufRead::consume(Pin::new(&mut s), n);
        polls += 1;
    }
    // the peer has neither finished nor aborted and more data is queued: no end-of-stream may be reported
    assert!(!eof_seen, "C05.eof.premature: end-of-stream is reported only after the peer finished and all its data was returned (a zero-length payload is not EOF)");
    core::mem::forget((s, slot, w));
}

// Payload length 0 is excluded here: a conforming writer never emits an empty Push (contract
// c05_write_zero_length); the reader treats an empty payload as EOF by design (stream.rs comment).
#[cfg_attr(kani, kani::proof)]
#[cfg_attr(kani, kani::stub(catch_unwind, call_through))]
#[cfg_attr(kani, kani::unwind(6))]
#[cfg_attr(verif_replay, test)]
fn c05_reader_eof_payload_len1() {
    reader_eof_contract::<1>();
}

#[cfg_attr(kani, kani::proof)]
#[cfg_attr(kani, kani::stub(catch_unwind, call_through))]
#[cfg_attr(kani, kani::unwind(6))]
#[cfg_attr(verif_replay, test)]
fn c05_reader_eof_payload_len2() {
    reader_eof_contract::<2>();
}

/// after the sender is gone (Finish / abort / teardown) the reader drains the queue, then EOF
#[cfg_attr(kani, kani::proof)]
#[cfg_attr(kani, kani::stub(catch_unwind, call_through))]
#[cfg_attr(kani, kani::unwind(6))]
#[cfg_attr(verif_replay, test)]
fn c05_reader_drains_then_eof() {
    let w = world(4, 4, false, 1);
    let p: [u8; 2] = kani::any();
    let (mut s, mut d) = w.task.new_stream_shared(9, 1, Bytes::new(), 0);
    d.sender.as_ref().unwrap().try_send(Bytes::copy_from_slice(&p)).ok();
    let finish_before = s.finish_sent.load(Ordering::Relaxed);
    let taken = d.disallow_read(); // what the Finish arm does
    assert!(taken.is_some() && d.sender.is_none(), "C05.finish.read_closed: Finish closes the inbound queue");
    assert!(s.finish_sent.load(Ordering::Relaxed) == finish_before && s.psh_send_remaining.load(Ordering::Relaxed) == 1,
        "C05.finish.halfclose: Finish leaves the write direction and the credit untouched");
    drop(taken);
    let mut c = cx();
    {
        let r = tokio::io::AsyncBufRead::poll_fill_buf(Pin::new(&mut s), &mut c);
        if let Poll::Ready(Ok(x)) = &r {
            assert!(x.len() == 2 && x[0] == p[0] && x[1] == p[1], "C05.eof.after_data: data delivered before the Finish is still returned");
        } else {
            assert!(false, "C05.eof.ready");
        }
        core::mem::forget(r);
    }
    tokio::io::AsyncBufRead::consume(Pin::new(&mut s), 2);
    {
        let r = tokio::io::AsyncBufRead::poll_fill_buf(Pin::new(&mut s), &mut c);
        assert!(matches!(&r, Poll::Ready(Ok(x)) if x.is_empty()), "C05.eof.then: then end-of-stream");
        core::mem::forget(r);
    }
    core::mem::forget((s, d, w));
}

// ============================================================================ C06 / C10 / C15 helpers
/// `close_flow_local` on an Established slot, all (finish_sent, inhibit)
#[cfg_attr(kani, kani::proof)]
#[cfg_attr(kani, kani::stub(catch_unwind, call_through))]
#[cfg_attr(kani, kani::unwind(10))]
#[cfg_attr(verif_replay, test)]
fn c06_close_flow_local_established() {
    let mut w = world(4, 2, false, 1);
    let id: u32 = kani::any();
    let fin: bool = kani::any();
    let inhibit: bool = kani::any();
    let peer_finished: bool = kani::any();
    let (mut s, mut d) = w.task.new_stream_shared(id, 5, Bytes::new(), 0);
    s.finish_sent.store(fin, Ordering::Relaxed);
    if peer_finished {
        // the peer's Finish closed only its own sending direction: it is still reading, so an
        // abort of our end must still be announced
        drop(d.disallow_read());
    }
    w.task.close_flow_local(FlowSlot::Established(d), id, inhibit);
    let seen = next_seen(&mut w.tx_msg_rx);
    if !fin && !inhibit {
        assert!(seen.op == 2 && seen.id == id && seen.len == 5, "C06.abort.reset: an abort tells the peer with exactly one Reset of that flow");
    } else if inhibit {
        assert!(seen == NOTHING, "C10+C08.reset.no_reply: closing because of a peer Reset (or teardown) sends nothing -- never a Reset in reply to a Reset");
    } else {
        assert!(seen == NOTHING || (seen.op == 2 && seen.id == id), "C06.abort.after_finish: at most a Reset of this flow");
    }
    assert!(out_empty(&mut w.tx_msg_rx), "C06.abort.single: never more than one frame");
    assert!(s.finish_sent.load(Ordering::Relaxed), "C05+C06+C08.abort.writes_fail: later writes fail with BrokenPipe");
    let mut c = cx();
    assert!(matches!(s.poll_for_push(&mut c), Poll::Ready(0)), "C06+C08.abort.eof: the reader gets end-of-stream");
    core::mem::forget((s, w));
}

#[cfg_attr(kani, kani::proof)]
#[cfg_attr(kani, kani::stub(catch_unwind, call_through))]
#[cfg_attr(kani, kani::unwind(10))]
#[cfg_attr(verif_replay, test)]
fn c06_close_flow_local_pending_requests() {
    let mut w = world(4, 2, false, 1);
    let id: u32 = kani::any();
    let inhibit: bool = kani::any();
    let (tx, mut rx) = oneshot::channel::<Option<MuxStream>>();
    w.task.close_flow_local(FlowSlot::Requested(tx), id, inhibit);
    let mut c = cx();
    assert!(matches!(Pin::new(&mut rx).poll(&mut c), Poll::Ready(Ok(None))), "C07+C08.rejected: a rejected / torn-down stream request resolves with None");
    let (tx, mut rx) = oneshot::channel::<bool>();
    w.task.close_flow_local(FlowSlot::BindRequested(tx), id, inhibit);
    assert!(matches!(Pin::new(&mut rx).poll(&mut c), Poll::Ready(Ok(false))), "C15+C08.reset_is_false: Reset or teardown resolves a bind request with false");
    assert!(out_empty(&mut w.tx_msg_rx), "C10+C08.pending.no_frame: resolving a pending request sends nothing");
    core::mem::forget(w);
}

/// dropping a stream tells the connection task which flow to free
#[cfg_attr(kani, kani::proof)]
#[cfg_attr(kani, kani::stub(catch_unwind, call_through))]
#[cfg_attr(kani, kani::unwind(10))]
#[cfg_attr(verif_replay, test)]
fn c06_drop_stream_notifies_task() {
    let mut w = world(4, 2, false, 1);
    let id: u32 = kani::any();
    let (s, d) = w.task.new_stream_shared(id, 5, Bytes::new(), 0);
    drop(s);
    assert!(matches!(w.dropped_rx.try_recv(), Ok(x) if x == id), "C06.drop.notify: Drop reports exactly this flow id");
    assert!(w.dropped_rx.len() == 0, "C06.drop.once");
    core::mem::forget((d, w));
}

// ============================================================================ C07
#[cfg_attr(kani, kani::proof)]
#[cfg_attr(kani, kani::stub(catch_unwind, call_through))]
#[cfg_attr(kani, kani::unwind(10))]
#[cfg_attr(verif_replay, test)]
fn c07_establish_exactly_once() {
    let w = world(4, 2, false, 1);
    let (tx, _rx) = oneshot::channel::<Option<MuxStream>>();
    let mut slot = FlowSlot::Requested(tx);
    let (s1, d1) = w.task.new_stream_shared(5, 10, Bytes::new(), 0);
    let r1 = slot.establish(d1);
    assert!(r1.is_some() && matches!(slot, FlowSlot::Established(_)), "C07.establish.first: the first Acknowledge establishes the requested flow");
    let (s2, d2) = w.task.new_stream_shared(5, 20, Bytes::new(), 0);
    let r2 = slot.establish(d2);
    assert!(r2.is_none(), "C07.establish.once: a slot is established at most once");
    match &slot {
        FlowSlot::Established(d) => assert!(d.psh_send_remaining.load(Ordering::Relaxed) == 10, "C07.establish.kept: a second attempt does not replace the established stream"),
        _ => assert!(false, "C07.establish.state"),
    }
    core::mem::forget((r1, s1, s2, slot, w));
}

// ============================================================================ C15
/// BindRequest life cycle: over `reply(a)? ; drop` exactly one answer frame is emitted
#[cfg_attr(kani, kani::proof)]
#[cfg_attr(kani, kani::stub(catch_unwind, call_through))]
#[cfg_attr(kani, kani::unwind(10))]
#[cfg_attr(verif_replay, test)]
fn c15_bindrequest_reply_then_drop() {
    let mut w = world(4, 2, true, 1);
    let id: u32 = kani::any();
    let replies: bool = kani::any();
    let accepted: bool = kani::any();
    let req = BindRequest {
        flow_id: id,
        payload: crate::frame::BindPayload { bind_type: BindType::Stream, target_port: 1, target_host: cow_bytes::CowBytes::Temporary(b"h") },
        tx_msg_tx: w.task.tx_msg_tx.clone(),
        replied: AtomicBool::new(false),
    };
    if replies {
        assert!(req.reply(accepted).is_ok(), "C15.reply.ok");
    }
    drop(req);
    let first = next_seen(&mut w.tx_msg_rx);
    let want = if replies && accepted { 3 } else { 2 };
    assert!(first.op == want && first.id == id && first.len == 5, "C15.answer: Finish iff the application accepted this request, else Reset");
    assert!(out_empty(&mut w.tx_msg_rx), "C15.exactly_once: every bind request is answered exactly once (no second frame after reply + drop)");
    core::mem::forget(w);
}

// ============================================================================ C07 id allocation
/// scripted generator: the ids a random generator could produce, here three symbolic draws
pub(crate) struct ScriptRng {
    pub vals: [u32; 3],
    pub i: usize,
}
impl rand::TryRng for ScriptRng {
    type Error = core::convert::Infallible;
    fn try_next_u32(&mut self) -> core::result::Result<u32, Self::Error> {
        let v = self.vals[self.i % 3];
        self.i += 1;
        Ok(v)
    }
    fn try_next_u64(&mut self) -> core::result::Result<u64, Self::Error> {
        let v = self.vals[self.i % 3] as u64;
        self.i += 1;
        Ok(v)
    }
    fn try_fill_bytes(&mut self, dst: &mut [u8]) -> core::result::Result<(), Self::Error> {
        let mut k = 0;
        while k < dst.len() {
            dst[k] = 0;
            k += 1;
        }
        Ok(())
    }
}



// NOTE (measured): every harness that touches the flow table (`hashbrown::HashMap` insert / get /
// remove, even with concrete keys and the identity hasher) or builds a `Multiplexor` did not finish
// within 10 minutes / 25 GB of CBMC.  `close_flow`, `ack_recv_new_stream`, `con_recv_new_stream`,
// `insert_new_flow`, `send_datagram` and the `process_frame` arms are therefore NOT under contract;
// what is verified is every helper they delegate to that does not need the table.

/// `FlowSlot::dispatch` on anything but an open established stream refuses the frame without
/// touching other state: the Push arm answers `None` with a Reset (PROTOCOL.md: unknown flow)
#[cfg_attr(kani, kani::proof)]
#[cfg_attr(kani, kani::stub(catch_unwind, call_through))]
#[cfg_attr(kani, kani::unwind(6))]
#[cfg_attr(verif_replay, test)]
fn c10_dispatch_on_non_open_slot() {
    let w = world(4, 2, false, 1);
    let (tx, rx) = oneshot::channel::<Option<MuxStream>>();
    let slot = FlowSlot::Requested(tx);
    assert!(slot.dispatch(Bytes::from_static(b"x")).is_none(), "C10.push.requested: a Push on a not yet established flow is refused (-> Reset)");
    let (tx2, rx2) = oneshot::channel::<bool>();
    let slot2 = FlowSlot::BindRequested(tx2);
    assert!(slot2.dispatch(Bytes::from_static(b"x")).is_none(), "C10.push.bind: a Push on a pending bind request is refused (-> Reset)");
    let (s, mut d) = w.task.new_stream_shared(9, 1, Bytes::new(), 0);
    let taken = d.disallow_read();
    let slot3 = FlowSlot::Established(d);
    assert!(slot3.dispatch(Bytes::from_static(b"x")).is_none(), "C10.push.after_finish: a Push after the peer's Finish is refused (-> Reset)");
    core::mem::forget((slot, slot2, slot3, rx, rx2, taken, s, w));
}
