//! Kani harnesses (= contracts) for the keepalive code (C16): one iteration of
//! `Task::schedule_ping_task` per tick, the disabled case, and which inbound messages refresh the
//! last-pong timestamp.  Model configuration + feature `tokio-time`; tokio's interval is the
//! stand-in of /verif/kani/tokio-model (`time`): the harness decides when a tick is due, the clock
//! is a `TimestampProvider` driven by the harness.
#![allow(dead_code, unused_imports, unused_variables, unused_mut)]
use super::verif_kani::*;
use super::verif_kani_table::poll_once;
use super::*;
use crate::loom::Ordering;
use core::time::Duration;
#[cfg(kani)]
use std::panic::catch_unwind;
#[cfg(kani)]
fn call_through<F: FnOnce() -> R + std::panic::UnwindSafe, R>(f: F) -> std::thread::Result<R> {
    Ok(f())
}
#[cfg(verif_replay)]
use crate::verif_replay_kani as kani;

static mut NOW_S: u64 = 0;
fn set_now(s: u64) {
    unsafe { NOW_S = s }
}
/// a clock in whole seconds, driven by the harness
#[derive(Clone, Copy, PartialEq, Eq)]
pub(crate) struct Clk(pub u64);
impl TimestampProvider for Clk {
    fn now() -> Self {
        Clk(unsafe { NOW_S })
    }
    fn duration_since(&self, earlier: Self) -> Duration {
        Duration::from_secs(self.0.saturating_sub(earlier.0))
    }
}

pub(crate) struct WorldC {
    pub task: Task<NullWs, Clk>,
    pub tx_msg_rx: mpsc::UnboundedReceiver<Message>,
    pub dropped_rx: mpsc::UnboundedReceiver<u32>,
    pub con_rx: mpsc::Receiver<MuxStream>,
    pub dgram_rx: mpsc::Receiver<Datagram>,
}
pub(crate) fn world_c(interval: OptionalDuration, timeout: OptionalDuration, last_pong: u64) -> WorldC {
    let (tx_msg_tx, tx_msg_rx) = mpsc::unbounded_channel();
    let (dropped_flows_tx, dropped_rx) = mpsc::unbounded_channel();
    let (con_recv_stream_tx, con_rx) = mpsc::channel(2);
    let (datagram_tx, dgram_rx) = mpsc::channel(1);
    let task = Task {
        ws: Mutex::new(NullWs),
        flows: Arc::new(RwLock::new(HashMap::with_hasher(IntHasher::default()))),
        tx_msg_tx,
        dropped_flows_tx,
        con_recv_stream_tx,
        last_pong_timestamp: Mutex::new(Clk(last_pong)),
        default_rwnd_threshold: 2,
        rwnd: 4,
        datagram_tx,
        bnd_request_tx: None,
        keepalive_interval: interval,
        keepalive_timeout: timeout,
    };
    WorldC { task, tx_msg_rx, dropped_rx, con_rx, dgram_rx }
}

/// one tick of the ping loop, for every timeout T (finite or none), every last-pong time p and every
/// current time n >= p:  the connection is ended with KeepaliveTimeout iff T is finite and
/// n - p > T; otherwise exactly one Ping is queued and the loop waits for the next tick.
#[cfg(all(kani, feature = "tokio-time"))]
#[cfg_attr(kani, kani::proof)]
#[cfg_attr(kani, kani::stub(catch_unwind, call_through))]
#[cfg_attr(kani, kani::unwind(4))]
#[cfg_attr(verif_replay, test)]
fn p_ping_tick_decision() {
    let finite: bool = kani::any();
    let t: u32 = kani::any();
    let p: u32 = kani::any();
    let n: u32 = kani::any();
    kani::assume(n >= p && t >= 1);
    let timeout = if finite { OptionalDuration::from_secs(t as u64) } else { OptionalDuration::NONE };
    let mut w = world_c(OptionalDuration::from_secs(1), timeout, p as u64);
    set_now(n as u64);
    tokio::time::model_release_ticks(1);
    let WorldC { task, mut tx_msg_rx, dropped_rx, con_rx, dgram_rx } = w;
    let r = poll_once(task.schedule_ping_task());
    let elapsed = (n - p) as u64;
    let must_time_out = finite && elapsed > t as u64;
    kani::cover!(must_time_out);
    kani::cover!(finite && elapsed == t as u64);
    if must_time_out {
        assert!(matches!(r, Poll::Ready(Err(Error::KeepaliveTimeout))), "C16.tick.timeout: no pong for longer than T ends the connection with KeepaliveTimeout at this tick");
        assert!(tx_msg_rx.len() == 0, "C16.tick.timeout.no_ping");
    } else {
        assert!(matches!(r, Poll::Pending), "C16.tick.alive: a peer whose last pong is at most T old is never timed out; the loop waits for the next tick");
        assert!(tx_msg_rx.len() == 1, "C16.tick.one_ping: exactly one Ping per tick");
        let m = tx_msg_rx.try_recv();
        assert!(matches!(m, Ok(Message::Ping)), "C16.tick.ping: and it is a Ping");
        core::mem::forget(m);
    }
    core::mem::forget(r);
    assert!(tokio::time::model_ticks_due() == 0, "C16.tick.consumed");
    core::mem::forget((task, tx_msg_rx, dropped_rx, con_rx, dgram_rx));
}

/// two consecutive ticks without a timeout: two Pings, one per tick (a ping is sent every I)
#[cfg(all(kani, feature = "tokio-time"))]
#[cfg_attr(kani, kani::proof)]
#[cfg_attr(kani, kani::stub(catch_unwind, call_through))]
#[cfg_attr(kani, kani::unwind(5))]
#[cfg_attr(verif_replay, test)]
fn p_ping_every_tick() {
    let mut w = world_c(OptionalDuration::from_secs(2), OptionalDuration::NONE, 0);
    set_now(100);
    tokio::time::model_release_ticks(2);
    let WorldC { task, mut tx_msg_rx, dropped_rx, con_rx, dgram_rx } = w;
    let r = poll_once(task.schedule_ping_task());
    assert!(matches!(r, Poll::Pending), "C16.every.alive: without a timeout the loop never ends");
    core::mem::forget(r);
    assert!(tx_msg_rx.len() == 2 && tokio::time::model_ticks_due() == 0, "C16.every.one_per_tick: one Ping per tick");
    core::mem::forget((task, tx_msg_rx, dropped_rx, con_rx, dgram_rx));
}

/// keepalive disabled (no interval): no tick is ever awaited from a timer, no Ping, no timeout --
/// whatever the timeout setting and however old the last pong
#[cfg(all(kani, feature = "tokio-time"))]
#[cfg_attr(kani, kani::proof)]
#[cfg_attr(kani, kani::stub(catch_unwind, call_through))]
#[cfg_attr(kani, kani::unwind(4))]
#[cfg_attr(verif_replay, test)]
fn p_ping_disabled() {
    let finite: bool = kani::any();
    let t: u32 = kani::any();
    let n: u32 = kani::any();
    kani::assume(t >= 1);
    let timeout = if finite { OptionalDuration::from_secs(t as u64) } else { OptionalDuration::NONE };
    let mut w = world_c(OptionalDuration::NONE, timeout, 0);
    set_now(n as u64);
    tokio::time::model_release_ticks(3); // even if some timer elsewhere has ticks due
    let WorldC { task, mut tx_msg_rx, dropped_rx, con_rx, dgram_rx } = w;
    let r = poll_once(task.schedule_ping_task());
    assert!(matches!(r, Poll::Pending), "C16.disabled.never: with keepalive disabled no timeout ever occurs");
    core::mem::forget(r);
    assert!(tx_msg_rx.len() == 0, "C16.disabled.no_ping: and no Ping is sent");
    assert!(tokio::time::model_ticks_due() == 3, "C16.disabled.no_timer");
    core::mem::forget((task, tx_msg_rx, dropped_rx, con_rx, dgram_rx));
}

/// only a Pong refreshes the last-pong time; Ping and Close do not (data frames go to
/// process_frame, which has no access path to the timestamp)
#[cfg_attr(kani, kani::proof)]
#[cfg_attr(kani, kani::stub(catch_unwind, call_through))]
#[cfg_attr(kani, kani::unwind(6))]
#[cfg_attr(verif_replay, test)]
fn p_only_pong_refreshes() {
    let p: u32 = kani::any();
    let n: u32 = kani::any();
    kani::assume(n > p);
    let mut w = world_c(OptionalDuration::from_secs(1), OptionalDuration::from_secs(2), p as u64);
    set_now(n as u64);
    let r = poll_once(w.task.process_message(Message::Ping, false));
    core::mem::forget(r);
    assert!(w.task.last_pong_timestamp.lock().0 == p as u64, "C16.refresh.ping_does_not: an inbound Ping is not evidence that our pings are answered");
    let r = poll_once(w.task.process_message(Message::Close, false));
    core::mem::forget(r);
    assert!(w.task.last_pong_timestamp.lock().0 == p as u64, "C16.refresh.close_does_not");
    let r = poll_once(w.task.process_message(Message::Pong, false));
    assert!(matches!(r, Poll::Ready(Ok(false))), "C16.refresh.pong.ok");
    core::mem::forget(r);
    assert!(w.task.last_pong_timestamp.lock().0 == n as u64, "C16.refresh.pong: a Pong sets the last-pong time to now");
    core::mem::forget(w);
}
