//! Kani harnesses (= contracts) for the stream-to-socket bridge `CopyBidirectional::poll`
//! (C13), injected as a child module of `stream_tools::copy_bidirectional` (its state enums and
//! fields are module-private).  Model configuration (tokio channel/io model).
//!
//! The local side is a *script*: every call of `poll_fill_buf / consume / poll_write / poll_flush
//! / poll_shutdown` takes its result from a fixed step list and records what it was given.  One
//! harness = one script shape (control flow concrete, data bytes/credit/ids symbolic).  The
//! contract of ONE `poll` call:
//!   (a) bytes written to the local side are exactly the bytes consumed from the mux side, in
//!       order; bytes consumed from the local side are exactly the payload of the Push emitted;
//!   (b) one unit of credit per Push frame emitted, none otherwise;
//!   (c) if any sub-operation returned an error during this poll, the poll returns that
//!       direction's error now, or has arranged to be polled again (woke its own waker);
//!   (d) if the poll returns Pending, every direction that is not Done has a registered wake-up
//!       source: some sub-operation of that direction returned Pending during this poll (local
//!       side), or the mux side of that direction is waiting (queue empty and open / credit 0);
//!   (e) EOF on one side is propagated once as shutdown/Finish, the other direction's state is
//!       untouched; (f) Ready(Ok((r, w))) only with both directions Done and the byte totals.
#![allow(dead_code, unused_imports, unused_variables, unused_mut)]
use super::*;
use crate::task::verif_kani::*;
use crate::loom::Ordering;
use bytes::Bytes;
use core::future::Future;
use core::task::{RawWaker, RawWakerVTable, Waker};
use tokio::io::AsyncRead;
#[cfg(kani)]
use std::panic::catch_unwind;
#[cfg(kani)]
fn call_through<F: FnOnce() -> R + std::panic::UnwindSafe, R>(f: F) -> std::thread::Result<R> {
    Ok(f())
}
#[cfg(verif_replay)]
use crate::verif_replay_kani as kani;

#[derive(Clone, Copy, PartialEq, Eq)]
#[repr(u8)]
pub(crate) enum Rd {
    Data = 0,
    Pending = 1,
    Eof = 2,
    Err = 3,
}
#[derive(Clone, Copy, PartialEq, Eq)]
#[repr(u8)]
pub(crate) enum Wr {
    Accept = 0,
    Pending = 1,
    Err = 2,
}

pub(crate) const STEPS: usize = 4;

/// the state of the scripted local byte stream.  It lives in a `static`: inside the bridge struct
/// it would be moved (memcpy) together with symbolic data bytes, after which CBMC no longer folds the
/// script position and explores every step kind at every call (measured: 5 loop iterations of
/// garbage, > 24 GB).
pub(crate) struct ScriptState {
    // ---- read half (local -> mux)
    pub rd: [Rd; STEPS],
    pub rd_len: [usize; STEPS],
    pub rd_i: usize,
    pub rd_off: usize,
    pub consumed: usize,
    pub fill_pending: usize,
    pub fill_err: usize,
    pub flushes: usize,
    // ---- write half (mux -> local)
    pub wr: [Wr; STEPS],
    pub wr_take: [usize; STEPS],
    pub wr_i: usize,
    pub written: [u8; 8],
    pub written_n: usize,
    pub write_pending: usize,
    pub write_err: usize,
    pub shutdowns: usize,
    pub shutdown_result: Wr,
}

impl ScriptState {
    pub(crate) const fn new() -> Self {
        ScriptState {
            rd: [Rd::Pending; STEPS],
            rd_len: [0; STEPS],
            rd_i: 0,
            rd_off: 0,
            consumed: 0,
            fill_pending: 0,
            fill_err: 0,
            flushes: 0,
            wr: [Wr::Pending; STEPS],
            wr_take: [0; STEPS],
            wr_i: 0,
            written: [0; 8],
            written_n: 0,
            write_pending: 0,
            write_err: 0,
            shutdowns: 0,
            shutdown_result: Wr::Accept,
        }
    }
    fn reset_counters(&mut self) {
        self.fill_pending = 0;
        self.fill_err = 0;
        self.write_pending = 0;
        self.write_err = 0;
    }
}

fn an_error() -> io::Error {
    io::Error::from(io::ErrorKind::ConnectionReset)
}

static mut SCRIPT: ScriptState = ScriptState::new();
/// the data bytes handed out by the read half live in their OWN static: copying them into the Push
/// frame (memcpy out of this object) otherwise makes CBMC treat the whole script state as possibly
/// written, and the script position stops folding (measured by bisection: DESIGN.md 9.6)
static mut RD_DATA: [[u8; 2]; STEPS] = [[0; 2]; STEPS];
#[allow(static_mut_refs)]
pub(crate) fn rd_data() -> &'static mut [[u8; 2]; STEPS] {
    unsafe { &mut RD_DATA }
}
/// the harness's view of the script
#[allow(static_mut_refs)]
pub(crate) fn script() -> &'static mut ScriptState {
    unsafe { &mut SCRIPT }
}
/// the local byte stream handed to the bridge: a handle to the script
pub(crate) struct ScriptIo;
impl ScriptIo {
    pub(crate) fn new() -> &'static mut ScriptState {
        let s = script();
        *s = ScriptState::new();
        *rd_data() = [[0; 2]; STEPS];
        s
    }
}

impl AsyncRead for ScriptIo {
    fn poll_read(self: Pin<&mut Self>, _cx: &mut Context<'_>, _buf: &mut tokio::io::ReadBuf<'_>) -> Poll<io::Result<()>> {
        unreachable!("the bridge reads the local side through AsyncBufRead only")
    }
}
impl AsyncBufRead for ScriptIo {
    fn poll_fill_buf(self: Pin<&mut Self>, _cx: &mut Context<'_>) -> Poll<io::Result<&[u8]>> {
        let this = script();
        let i = if this.rd_i < STEPS { this.rd_i } else { STEPS - 1 };
        match this.rd[i] {
            // literal slice lengths: a length that CBMC cannot fold would make the allocation of
            // the Push frame symbolic in size (intractable, DESIGN.md 2.2 cost rule i)
            Rd::Data => {
                if this.rd_len[i] == 1 {
                    Poll::Ready(Ok(&rd_data()[i][0..1]))
                } else {
                    Poll::Ready(Ok(&rd_data()[i][0..2]))
                }
            }
            Rd::Pending => {
                this.fill_pending += 1;
                Poll::Pending
            }
            Rd::Eof => Poll::Ready(Ok(&[])),
            Rd::Err => {
                this.fill_err += 1;
                if this.rd_i < STEPS {
                    this.rd_i += 1; // an error is reported once
                }
                Poll::Ready(Err(an_error()))
            }
        }
    }
    fn consume(self: Pin<&mut Self>, amt: usize) {
        let this = script();
        let i = this.rd_i;
        assert!(i < STEPS && this.rd[i] == Rd::Data && amt == this.rd_len[i], "SCRIPT: the bridge consumes exactly the chunk it was handed");
        this.consumed += amt;
        this.rd_i += 1;
    }
}
impl AsyncWrite for ScriptIo {
    fn poll_write(self: Pin<&mut Self>, _cx: &mut Context<'_>, buf: &[u8]) -> Poll<io::Result<usize>> {
        let this = script();
        let i = if this.wr_i < STEPS { this.wr_i } else { STEPS - 1 };
        match this.wr[i] {
            Wr::Accept => {
                let k = if this.wr_take[i] < buf.len() { this.wr_take[i] } else { buf.len() };
                let mut j = 0;
                while j < k {
                    this.written[this.written_n] = buf[j];
                    this.written_n += 1;
                    j += 1;
                }
                this.wr_i += 1;
                Poll::Ready(Ok(k))
            }
            Wr::Pending => {
                this.write_pending += 1;
                Poll::Pending
            }
            Wr::Err => {
                this.write_err += 1;
                this.wr_i += 1;
                Poll::Ready(Err(an_error()))
            }
        }
    }
    fn poll_flush(self: Pin<&mut Self>, _cx: &mut Context<'_>) -> Poll<io::Result<()>> {
        script().flushes += 1;
        Poll::Ready(Ok(()))
    }
    fn poll_shutdown(self: Pin<&mut Self>, _cx: &mut Context<'_>) -> Poll<io::Result<()>> {
        let this = script();
        this.shutdowns += 1;
        match this.shutdown_result {
            Wr::Accept => Poll::Ready(Ok(())),
            Wr::Pending => {
                this.write_pending += 1;
                Poll::Pending
            }
            Wr::Err => {
                this.write_err += 1;
                Poll::Ready(Err(an_error()))
            }
        }
    }
}

// ---- a waker that records whether it was woken (self-wake = "poll me again")
static mut WOKEN: usize = 0;
fn vt_clone(_: *const ()) -> RawWaker {
    RawWaker::new(core::ptr::null(), &VTABLE)
}
fn vt_wake(_: *const ()) {
    unsafe { WOKEN += 1 }
}
fn vt_drop(_: *const ()) {}
static VTABLE: RawWakerVTable = RawWakerVTable::new(vt_clone, vt_wake, vt_wake, vt_drop);
fn woken() -> usize {
    unsafe { WOKEN }
}

pub(crate) struct Bridge {
    pub b: core::mem::ManuallyDrop<CopyBidirectional<ScriptIo>>,
}
impl Bridge {
    fn poll(&mut self) -> Poll<io::Result<(usize, usize)>> {
        script().reset_counters();
        // SAFETY: never moved after the first poll, never dropped
        let p = unsafe { Pin::new_unchecked(&mut *self.b) };
        let w = unsafe { Waker::from_raw(RawWaker::new(core::ptr::null(), &VTABLE)) };
        let w = core::mem::ManuallyDrop::new(w);
        let mut c = Context::from_waker(&w);
        p.poll(&mut c)
    }
}

/// the mux side: stream A with `credit`, its slot data (the task's end), the world's queues
fn setup(credit: u32, _io: &'static mut ScriptState) -> (Bridge, crate::EstablishedStreamData, World) {
    let w = world(4, 2, false, 1);
    let (s, d) = mk_stream(&w, crate::task::verif_kani_table::A, credit);
    let b = Bridge { b: core::mem::ManuallyDrop::new(CopyBidirectional::new(s, ScriptIo)) };
    (b, d, w)
}

/// (d) for the direction mux -> local
fn read_dir_has_wakeup(b: &Bridge, d: &crate::EstablishedStreamData) -> bool {
    matches!(b.b.read_state, ReadState::Done(_))
        || script().write_pending > 0
        || (b.b.us.buf.is_empty() && b.b.us.rx_frame_rx.len() == 0 && d.sender.is_some())
}
/// (d) for the direction local -> mux
fn write_dir_has_wakeup(b: &Bridge) -> bool {
    matches!(b.b.write_state, WriteState::Done(_))
        || script().fill_pending > 0
        || (b.b.us.psh_send_remaining.load(Ordering::Relaxed) == 0 && !b.b.us.finish_sent.load(Ordering::Relaxed))
}

const A_ID: u32 = crate::task::verif_kani_table::A;

// ======================================================================== mux -> local
/// one queued frame "ab"; the local side takes k in {1, 2} bytes, then is not ready
#[cfg_attr(kani, kani::proof)]
#[cfg_attr(kani, kani::stub(catch_unwind, call_through))]
#[cfg_attr(kani, kani::unwind(6))]
#[cfg_attr(verif_replay, test)]
fn b_relay_to_local_partial_write() {
    let data: [u8; 2] = kani::any();
    let short: bool = kani::any();
    let mut io = ScriptIo::new();
    io.wr[0] = Wr::Accept;
    io.wr_take[0] = if short { 1 } else { 2 };
    let (mut b, d, mut w) = setup(3, io);
    d.sender.as_ref().unwrap().try_send(Bytes::copy_from_slice(&data)).ok();
    let p = b.poll();
    assert!(matches!(p, Poll::Pending), "C13.r.partial.pending: more to do in both directions");
    core::mem::forget(p);
    let k = if short { 1 } else { 2 };
    assert!(script().written_n == k && script().written[0] == data[0] && (short || script().written[1] == data[1]),
        "C13.r.bytes: the local side received exactly the first bytes of the frame, in order");
    assert!(b.b.us.buf.len() == 2 - k && (!short || b.b.us.buf[0] == data[1]), "C13.r.remainder: what the local side did not take stays buffered, nothing skipped or repeated");
    assert!(matches!(b.b.read_state, ReadState::Transferring(n) if n == k), "C13.r.count: byte counter == bytes relayed");
    assert!(out_empty(&mut w.tx_msg_rx) || b.b.us.psh_recvd_since == 0, "C13.r.ack_only: at most an Acknowledge leaves on this path");
    assert!(read_dir_has_wakeup(&b, &d) && write_dir_has_wakeup(&b), "C13.wakeup: a Pending bridge has a wake-up source in every unfinished direction");
    assert!(script().shutdowns == 0 && matches!(b.b.write_state, WriteState::Transferring(0)), "C13.r.other_dir_untouched");
    core::mem::forget((b, d, w));
}

/// mux side at end-of-stream: the local side is shut down exactly once, the opposite direction keeps going
#[cfg_attr(kani, kani::proof)]
#[cfg_attr(kani, kani::stub(catch_unwind, call_through))]
#[cfg_attr(kani, kani::unwind(6))]
#[cfg_attr(verif_replay, test)]
fn b_mux_eof_half_closes_local() {
    let slow: bool = kani::any();
    let mut io = ScriptIo::new();
    io.shutdown_result = if slow { Wr::Pending } else { Wr::Accept };
    let (mut b, mut d, mut w) = setup(3, io);
    drop(d.disallow_read()); // the peer's Finish
    let p = b.poll();
    assert!(matches!(p, Poll::Pending), "C13.eof.other_dir_open: the bridge goes on for the opposite direction");
    core::mem::forget(p);
    assert!(script().shutdowns == 1 && script().written_n == 0, "C13.eof.shutdown_once: end-of-stream from the peer is propagated as one shutdown of the local side");
    if slow {
        assert!(matches!(b.b.read_state, ReadState::ShuttingDown(0)), "C13.eof.shutting_down");
        script().shutdown_result = Wr::Accept;
        let p = b.poll();
        core::mem::forget(p);
    }
    assert!(matches!(b.b.read_state, ReadState::Done(0)), "C13.eof.done");
    assert!(matches!(b.b.write_state, WriteState::Transferring(0)) && !b.b.us.finish_sent.load(Ordering::Relaxed) && out_empty(&mut w.tx_msg_rx),
        "C13.eof.half_close: the local -> mux direction is untouched (no Finish, writes still allowed)");
    assert!(write_dir_has_wakeup(&b), "C13.wakeup");
    core::mem::forget((b, d, w));
}

/// the local side fails a write: the bridge completes with the error in this very poll
#[cfg_attr(kani, kani::proof)]
#[cfg_attr(kani, kani::stub(catch_unwind, call_through))]
#[cfg_attr(kani, kani::unwind(6))]
#[cfg_attr(verif_replay, test)]
fn b_local_write_error_is_prompt() {
    let mut io = ScriptIo::new();
    io.wr[0] = Wr::Err;
    let (mut b, d, mut w) = setup(3, io);
    d.sender.as_ref().unwrap().try_send(Bytes::from_static(b"ab")).ok();
    let before = woken();
    let p = b.poll();
    assert!(matches!(p, Poll::Ready(Err(_))) || woken() > before, "C13.err.write_prompt: a failed local write completes the bridge with the error (or re-schedules it) at once");
    core::mem::forget(p);
    core::mem::forget((b, d, w));
}

// ======================================================================== local -> mux
/// local data "xy" then not ready: exactly one Push(A, "xy"), one unit of credit
#[cfg_attr(kani, kani::proof)]
#[cfg_attr(kani, kani::stub(catch_unwind, call_through))]
#[cfg_attr(kani, kani::unwind(6))]
#[cfg_attr(verif_replay, test)]
fn b_relay_to_mux_single() {
    let data: [u8; 2] = kani::any();
    let credit: u32 = kani::any();
    kani::assume(credit >= 1);
    let mut io = ScriptIo::new();
    io.rd[0] = Rd::Data;
    rd_data()[0] = data;
    io.rd_len[0] = 2;
    let (mut b, d, mut w) = setup(credit, io);
    let p = b.poll();
    assert!(matches!(p, Poll::Pending), "C13.w.pending");
    core::mem::forget(p);
    let (seen, m) = next_out(&mut w.tx_msg_rx);
    let m = m.unwrap();
    assert!(seen.op == 4 && seen.id == A_ID && m.len() == 7 && m[5] == data[0] && m[6] == data[1], "C13.w.push: one Push on this flow whose payload is exactly the bytes taken from the local side");
    core::mem::forget(m);
    assert!(out_empty(&mut w.tx_msg_rx), "C13.w.single");
    assert!(b.b.us.psh_send_remaining.load(Ordering::Relaxed) == credit - 1, "C13.w.credit: one unit of credit per frame sent");
    assert!(script().consumed == 2 && matches!(b.b.write_state, WriteState::Transferring(2)), "C13.w.count: consumed from the local side == sent == counted");
    assert!(read_dir_has_wakeup(&b, &d) && write_dir_has_wakeup(&b), "C13.wakeup");
    core::mem::forget((b, d, w));
}

/// two ready chunks "x", "yz" are coalesced into ONE Push "xyz" for ONE unit of credit
#[cfg_attr(kani, kani::proof)]
#[cfg_attr(kani, kani::stub(catch_unwind, call_through))]
#[cfg_attr(kani, kani::unwind(6))]
#[cfg_attr(verif_replay, test)]
fn b_relay_to_mux_coalesced() {
    let x: u8 = kani::any();
    let yz: [u8; 2] = kani::any();
    let mut io = ScriptIo::new();
    io.rd[0] = Rd::Data;
    rd_data()[0] = [x, 0];
    io.rd_len[0] = 1;
    io.rd[1] = Rd::Data;
    rd_data()[1] = yz;
    io.rd_len[1] = 2;
    let (mut b, d, mut w) = setup(2, io);
    let p = b.poll();
    assert!(matches!(p, Poll::Pending), "C13.w2.pending");
    core::mem::forget(p);
    let (seen, m) = next_out(&mut w.tx_msg_rx);
    let m = m.unwrap();
    assert!(seen.op == 4 && seen.id == A_ID && m.len() == 8 && m[5] == x && m[6] == yz[0] && m[7] == yz[1], "C13.w2.push: the chunks arrive in order in one frame");
    core::mem::forget(m);
    assert!(out_empty(&mut w.tx_msg_rx) && b.b.us.psh_send_remaining.load(Ordering::Relaxed) == 1, "C13.w2.credit: one frame, one unit of credit");
    assert!(script().consumed == 3 && matches!(b.b.write_state, WriteState::Transferring(3)), "C13.w2.count");
    assert!(write_dir_has_wakeup(&b), "C13.wakeup");
    core::mem::forget((b, d, w));
}

/// local EOF (immediately, or right after one chunk): data first, then exactly one Finish; the
/// mux -> local direction keeps working.  One harness per shape (control flow concrete).
fn local_eof_contract(with_data: bool) {
    let x: u8 = kani::any();
    let mut io = ScriptIo::new();
    if with_data {
        io.rd[0] = Rd::Data;
        rd_data()[0] = [x, 0];
        io.rd_len[0] = 1;
        io.rd[1] = Rd::Eof;
    } else {
        io.rd[0] = Rd::Eof;
    }
    let (mut b, d, mut w) = setup(2, io);
    let p = b.poll();
    assert!(matches!(p, Poll::Pending), "C13.leof.other_dir_open");
    core::mem::forget(p);
    if with_data {
        let (seen, m) = next_out(&mut w.tx_msg_rx);
        let m = m.unwrap();
        assert!(seen.op == 4 && m.len() == 6 && m[5] == x, "C13.leof.data_first: data read before the EOF is sent before the Finish");
        core::mem::forget(m);
    }
    let seen = next_seen(&mut w.tx_msg_rx);
    assert!(seen.op == 3 && seen.id == A_ID && seen.len == 5, "C13.leof.finish: local end-of-stream is propagated as one Finish");
    assert!(out_empty(&mut w.tx_msg_rx), "C13.leof.once");
    let n = if with_data { 1 } else { 0 };
    assert!(matches!(b.b.write_state, WriteState::Done(k) if k == n), "C13.leof.done");
    assert!(matches!(b.b.read_state, ReadState::Transferring(0)) && script().shutdowns == 0, "C13.leof.half_close: the mux -> local direction is untouched");
    // a second poll sends nothing more
    let p = b.poll();
    core::mem::forget(p);
    assert!(out_empty(&mut w.tx_msg_rx), "C13.leof.idempotent");
    assert!(read_dir_has_wakeup(&b, &d), "C13.wakeup");
    core::mem::forget((b, d, w));
}

#[cfg_attr(kani, kani::proof)]
#[cfg_attr(kani, kani::stub(catch_unwind, call_through))]
#[cfg_attr(kani, kani::unwind(6))]
#[cfg_attr(verif_replay, test)]
fn b_local_eof_sends_finish() {
    local_eof_contract(false)
}

/// as above with one chunk read before the EOF: Push first, then the Finish
#[cfg_attr(kani, kani::proof)]
#[cfg_attr(kani, kani::stub(catch_unwind, call_through))]
#[cfg_attr(kani, kani::unwind(6))]
#[cfg_attr(verif_replay, test)]
fn b_local_eof_after_data_sends_push_then_finish() {
    local_eof_contract(true)
}

/// no credit: nothing is consumed from the local side and nothing is sent
#[cfg_attr(kani, kani::proof)]
#[cfg_attr(kani, kani::stub(catch_unwind, call_through))]
#[cfg_attr(kani, kani::unwind(6))]
#[cfg_attr(verif_replay, test)]
fn b_no_credit_no_frame() {
    let mut io = ScriptIo::new();
    io.rd[0] = Rd::Data;
    rd_data()[0] = [7, 8];
    io.rd_len[0] = 2;
    let (mut b, d, mut w) = setup(0, io);
    let p = b.poll();
    assert!(matches!(p, Poll::Pending), "C13.nocredit.waits");
    core::mem::forget(p);
    assert!(out_empty(&mut w.tx_msg_rx) && script().consumed == 0, "C13.nocredit: without credit no frame is sent and no local byte is consumed (nothing lost)");
    assert!(write_dir_has_wakeup(&b), "C13.wakeup");
    // credit arrives: the same bytes go out
    d.acknowledge(1);
    let p = b.poll();
    core::mem::forget(p);
    let (seen, m) = next_out(&mut w.tx_msg_rx);
    let m = m.unwrap();
    assert!(seen.op == 4 && m.len() == 7 && m[5] == 7 && m[6] == 8 && b.b.us.psh_send_remaining.load(Ordering::Relaxed) == 0, "C13.nocredit.resume: after the Acknowledge the pending bytes are sent for exactly that unit");
    core::mem::forget(m);
    core::mem::forget((b, d, w));
}

/// stream aborted by the peer (writes closed): the bridge fails with BrokenPipe, sends nothing
#[cfg_attr(kani, kani::proof)]
#[cfg_attr(kani, kani::stub(catch_unwind, call_through))]
#[cfg_attr(kani, kani::unwind(6))]
#[cfg_attr(verif_replay, test)]
fn b_peer_reset_fails_bridge() {
    let credit: u32 = kani::any();
    let mut io = ScriptIo::new();
    io.rd[0] = Rd::Data;
    rd_data()[0] = [7, 8];
    io.rd_len[0] = 2;
    io.shutdown_result = Wr::Accept;
    let (mut b, mut d, mut w) = setup(credit, io);
    d.disallow_write();
    drop(d.disallow_read());
    let p = b.poll();
    assert!(matches!(&p, Poll::Ready(Err(e)) if e.kind() == io::ErrorKind::BrokenPipe), "C13.reset: after a peer abort the bridge ends with BrokenPipe instead of transmitting");
    core::mem::forget(p);
    assert!(out_empty(&mut w.tx_msg_rx), "C13.reset.silent");
    core::mem::forget((b, d, w));
}

/// local read error: as the first result of the poll
#[cfg_attr(kani, kani::proof)]
#[cfg_attr(kani, kani::stub(catch_unwind, call_through))]
#[cfg_attr(kani, kani::unwind(6))]
#[cfg_attr(verif_replay, test)]
fn b_local_read_error_first() {
    let mut io = ScriptIo::new();
    io.rd[0] = Rd::Err;
    let (mut b, d, mut w) = setup(3, io);
    let before = woken();
    let p = b.poll();
    assert!(matches!(p, Poll::Ready(Err(_))) || woken() > before, "C13.err.read_prompt");
    core::mem::forget(p);
    assert!(out_empty(&mut w.tx_msg_rx), "C13.err.read.silent");
    core::mem::forget((b, d, w));
}

/// local read error right after data: the data is relayed, and the error must still surface
/// without needing unrelated traffic (no Pending without a wake-up source)
#[cfg_attr(kani, kani::proof)]
#[cfg_attr(kani, kani::stub(catch_unwind, call_through))]
#[cfg_attr(kani, kani::unwind(6))]
#[cfg_attr(verif_replay, test)]
fn b_local_read_error_after_data() {
    let x: u8 = kani::any();
    let mut io = ScriptIo::new();
    io.rd[0] = Rd::Data;
    rd_data()[0] = [x, 0];
    io.rd_len[0] = 1;
    io.rd[1] = Rd::Err;
    let (mut b, d, mut w) = setup(3, io);
    let before = woken();
    let p = b.poll();
    let prompt = matches!(p, Poll::Ready(Err(_))) || woken() > before;
    core::mem::forget(p);
    let (seen, m) = next_out(&mut w.tx_msg_rx);
    if let Some(m) = m {
        assert!(seen.op == 4 && m.len() == 6 && m[5] == x, "C13.err.after_data.relayed: what was read before the error is relayed unchanged");
        core::mem::forget(m);
    }
    assert!(prompt || write_dir_has_wakeup(&b), "C13.err.after_data.prompt: a read error right after data completes the bridge promptly -- never Pending with no wake-up source for that direction");
    core::mem::forget((b, d, w));
}

/// both sides end in the same poll: completes with the totals, Finish once, shutdown once
#[cfg_attr(kani, kani::proof)]
#[cfg_attr(kani, kani::stub(catch_unwind, call_through))]
#[cfg_attr(kani, kani::unwind(6))]
#[cfg_attr(verif_replay, test)]
fn b_both_ended_completes() {
    let mut io = ScriptIo::new();
    io.rd[0] = Rd::Eof;
    io.wr[0] = Wr::Accept;
    io.wr_take[0] = 2;
    let (mut b, mut d, mut w) = setup(3, io);
    d.sender.as_ref().unwrap().try_send(Bytes::from_static(b"ab")).ok();
    drop(d.disallow_read());
    let p = b.poll();
    assert!(matches!(p, Poll::Ready(Ok((2, 0)))), "C13.done.totals: completes with both byte counts once both directions have ended");
    core::mem::forget(p);
    assert!(script().written_n == 2 && script().written[0] == b'a' && script().written[1] == b'b', "C13.done.data_before_eof: data queued before the end-of-stream is relayed first");
    assert!(script().shutdowns == 1, "C13.done.shutdown_once");
    let seen = next_seen(&mut w.tx_msg_rx);
    let seen2 = next_seen(&mut w.tx_msg_rx);
    assert!((seen.op == 3 && seen2 == NOTHING) || (seen.op == 1 && seen2.op == 3 && next_seen(&mut w.tx_msg_rx) == NOTHING), "C13.done.finish_once: one Finish (possibly after an Acknowledge)");
    core::mem::forget((b, d, w));
}
