//! Kani harnesses (= contracts) for the application-facing half: `Multiplexor::{new_detailed,
//! insert_new_flow, new_stream_channel, request_bind, send_datagram, accept_stream_channel,
//! get_datagram, next_bind_request}`, `Drop for Multiplexor`, and the connection-task loops
//! `process_dropped_flows_task`, `poll_reserve_space_queue_message` (outbound FIFO drain) and
//! `wind_down`.  Same model configuration as the flow-table suite.
//!
//! The random generator handed to `Multiplexor::new_detailed` is a *script*: the ids it returns
//! are chosen by the harness (including 0 and ids that are in use), which is how "every id sequence
//! the generator can produce, including forced collisions" is covered: the contract holds for each
//! scripted prefix of bad ids followed by an arbitrary fresh one.
#![allow(dead_code, unused_imports, unused_variables, unused_mut)]
use super::verif_kani::*;
use super::verif_kani_table::*;
use super::*;
use crate::config::Options;
use crate::frame::{BindPayload, BindType, Frame, OpCode};
use crate::loom::Ordering;
use crate::Multiplexor;
use alloc::vec::Vec;
use core::future::Future;
use core::pin::Pin;
use core::task::Waker;
use tokio::sync::oneshot;
#[cfg(kani)]
use std::panic::catch_unwind;
#[cfg(kani)]
fn call_through<F: FnOnce() -> R + std::panic::UnwindSafe, R>(f: F) -> std::thread::Result<R> {
    Ok(f())
}
#[cfg(verif_replay)]
use crate::verif_replay_kani as kani;

/// scripted generator: returns `ids[0]`, `ids[1]`, ... (then panics: the harness states how many
/// draws the contract allows)
pub(crate) struct ScriptRng {
    pub ids: [u32; 4],
    pub next: usize,
}
impl rand::rand_core::TryRng for ScriptRng {
    type Error = core::convert::Infallible;
    fn try_next_u32(&mut self) -> core::result::Result<u32, Self::Error> {
        let v = self.ids[self.next];
        self.next += 1;
        Ok(v)
    }
    fn try_next_u64(&mut self) -> core::result::Result<u64, Self::Error> {
        let v = self.ids[self.next];
        self.next += 1;
        Ok(v as u64)
    }
    fn try_fill_bytes(&mut self, dst: &mut [u8]) -> core::result::Result<(), Self::Error> {
        let mut i = 0;
        while i < dst.len() {
            dst[i] = 0;
            i += 1;
        }
        Ok(())
    }
}

pub(crate) type Mux = Multiplexor<ScriptRng>;
pub(crate) type TD = TaskData<NullWs, ZeroTime>;

pub(crate) fn mux_world(opts: Options, ids: [u32; 4]) -> (core::mem::ManuallyDrop<Mux>, TD) {
    let (m, td) = Multiplexor::new_detailed::<NullWs, ZeroTime>(NullWs, opts, ScriptRng { ids, next: 0 });
    (core::mem::ManuallyDrop::new(m), td)
}

/// a future that is polled several times and finally leaked (see `poll_once`)
pub(crate) struct Leaky<F: Future>(core::mem::ManuallyDrop<F>);
impl<F: Future> Leaky<F> {
    pub(crate) fn new(f: F) -> Self {
        Leaky(core::mem::ManuallyDrop::new(f))
    }
    pub(crate) fn poll(&mut self) -> Poll<F::Output> {
        // SAFETY: the future lives in `self`, which the harness never moves after the first poll,
        // and it is never dropped
        let p = unsafe { Pin::new_unchecked(&mut *self.0) };
        let mut c = cx();
        p.poll(&mut c)
    }
}

fn tlen(td: &TD) -> usize {
    td.task.flows.read().len()
}


// ======================================================================== new_detailed
/// every queue gets the capacity its option names: datagram queue = datagram_buffer_size, accept
/// queue = stream_buffer_size, bind queue = bind_buffer_size; the window advertised is `rwnd`
#[cfg_attr(kani, kani::proof)]
#[cfg_attr(kani, kani::stub(catch_unwind, call_through))]
#[cfg_attr(kani, kani::unwind(9))]
#[cfg_attr(verif_replay, test)]
fn m_new_detailed_capacities() {
    let opts = Options::new().datagram_buffer_size(3).stream_buffer_size(1).bind_buffer_size(2).rwnd(2);
    let (mux, mut td) = mux_world(opts, [A, C, 0x55, 0x66]);
    let mut k = 0;
    let mut accepted = 0;
    while k < 5 {
        let d = Datagram { flow_id: k, target_host: Bytes::new(), target_port: 1, data: Bytes::new() };
        let r = td.task.datagram_tx.try_send(d);
        if r.is_ok() {
            accepted += 1;
        }
        core::mem::forget(r);
        k += 1;
    }
    assert!(accepted == 3, "C11.buffer.capacity: the datagram receive buffer holds exactly datagram_buffer_size datagrams (a datagram is lost only when THAT buffer is full)");
    assert!(td.task.rwnd == 2 && mux.rwnd == 2, "C03.options.rwnd");
    let b = td.task.bnd_request_tx.is_some() && mux.bnd_request_rx.is_some();
    assert!(b, "C15.options.bind_enabled: a positive bind_buffer_size enables bind requests");
    core::mem::forget(td);
}

// ======================================================================== insert_new_flow
/// id allocation: never 0, never an id in use; the slot is stored under exactly the returned id and
/// no other entry moves.  Script: 0, an id in use, then an arbitrary value `x`.
#[cfg_attr(kani, kani::proof)]
#[cfg_attr(kani, kani::stub(catch_unwind, call_through))]
#[cfg_attr(kani, kani::unwind(7))]
#[cfg_attr(verif_replay, test)]
fn m_insert_new_flow_skips_zero_and_used() {
    let x: u32 = kani::any();
    let y: u32 = kani::any();
    kani::assume(y != 0 && y != B); // the generator eventually produces a usable id
    let (mux, td) = mux_world(Options::new(), [0, B, x, y]);
    let (btx, mut brx) = oneshot::channel::<bool>();
    td.task.flows.write().insert(B, FlowSlot::BindRequested(btx));
    let (tx, rx) = oneshot::channel::<bool>();
    let id = mux.insert_new_flow(FlowSlot::BindRequested(tx));
    kani::cover!(id == x);
    kani::cover!(id == y && x == 0);
    kani::cover!(id == y && x == B);
    assert!(id != 0, "C07.alloc.nonzero: an endpoint never proposes flow id 0");
    assert!(id != B, "C07.alloc.unused: an endpoint never proposes an id it already uses");
    assert!(id == x || id == y, "C07.alloc.from_rng");
    assert!((x != 0 && x != B) == (id == x) || x == y, "C07.alloc.first_fit: the first usable draw is taken");
    let g = td.task.flows.read();
    assert!(g.len() == 2 && matches!(g.get(&id), Some(FlowSlot::BindRequested(_))), "C07.alloc.stored: the slot is stored under the returned id");
    assert!(matches!(g.get(&B), Some(FlowSlot::BindRequested(_))), "C07.alloc.frame: the existing flow keeps its slot");
    drop(g);
    let mut c = cx();
    assert!(matches!(Pin::new(&mut brx).poll(&mut c), Poll::Pending), "C07.alloc.frame2: the existing request is not answered");
    core::mem::forget((td, rx, brx));
}

// ======================================================================== new_stream_channel
/// open, accepted at the first attempt: exactly one Connect with (fresh id, own window, host, port);
/// the call waits until the answer; Acknowledge(id, peer) completes it with one stream carrying that
/// id and credit == peer window
#[cfg_attr(kani, kani::proof)]
#[cfg_attr(kani, kani::stub(catch_unwind, call_through))]
#[cfg_attr(kani, kani::unwind(7))]
#[cfg_attr(verif_replay, test)]
fn m_open_accepted() {
    // concrete, pairwise different values: the open future keeps them across its await points, and
    // symbolic values inside a suspended state machine stop CBMC from folding it (DESIGN.md 9.7)
    let rwnd: u32 = 3;
    let port: u16 = PORT;
    let peer: u32 = PEER;
    // one attempt only: the `Option<MuxStream>` answer has a niche-encoded tag that CBMC does not fold, so
    // the (infeasible) None branch is explored too; with one attempt it ends at once instead of retrying
    let (mux, mut td) = mux_world(Options::new().rwnd(rwnd).default_rwnd_threshold(1).max_flow_id_retries(1), [A, C, C, C]);
    let mut fut = Leaky::new(mux.new_stream_channel(b"hi", port));
    let p1 = fut.poll();
    assert!(matches!(p1, Poll::Pending), "C07.open.waits: the open call waits for the peer's answer");
    core::mem::forget(p1);
    let (seen, b) = next_out(&mut td.tx_msg_rx);
    assert!(seen.op == 0 && seen.id == A && seen.arg == rwnd, "C03.connect.window: the Connect carries the fresh id and advertises exactly the own receive window");
    let b = b.unwrap();
    assert!(b.len() == 13 && be16(&b, 9) == port && b[11] == b'h' && b[12] == b'i', "C07.open.target: the Connect carries port and host byte-exact");
    core::mem::forget(b);
    assert!(out_empty(&mut td.tx_msg_rx), "C07.open.single: one Connect per attempt");
    assert!(matches!(td.task.flows.read().get(&A), Some(FlowSlot::Requested(_))) && tlen(&td) == 1, "C07.open.slot: a Requested slot under the proposed id");
    // the peer accepts
    let r = poll_once(td.task.process_frame(Frame::new_acknowledge(A, peer), false));
    core::mem::forget(r);
    let p2 = fut.poll();
    match &p2 {
        Poll::Ready(Ok(s)) => {
            assert!(s.flow_id == A, "C07.open.id: the stream carries the id of the accepted Connect");
            assert!(s.psh_send_remaining.load(Ordering::Relaxed) == peer, "C03.init.credit: credit == the window the peer advertised");
        }
        _ => assert!(false, "C07.open.completes: the open call completes with the stream once the Acknowledge arrives"),
    }
    core::mem::forget(p2);
    assert!(out_empty(&mut td.tx_msg_rx) && tlen(&td) == 1, "C07.open.exactly_one: no further Connect, one slot");
    core::mem::forget((fut, td));
}

/// the first half of an open: exactly one Connect with (fresh id, own window, port, host byte-exact),
/// a Requested slot under that id, and the call waits.  (The second half -- the Acknowledge arm
/// establishing the slot and delivering a stream with that id and credit == the peer's window -- is
/// the contract t_ack_requested; the two halves in one harness, m_open_accepted, exceed 16 GB.)
#[cfg_attr(kani, kani::proof)]
#[cfg_attr(kani, kani::stub(catch_unwind, call_through))]
#[cfg_attr(kani, kani::unwind(7))]
#[cfg_attr(verif_replay, test)]
fn m_open_sends_connect() {
    let (mux, mut td) = mux_world(Options::new().rwnd(3).default_rwnd_threshold(1), [0, B, A, C]);
    let (btx, brx) = oneshot::channel::<bool>();
    td.task.flows.write().insert(B, FlowSlot::BindRequested(btx)); // id B is in use
    let mut fut = Leaky::new(mux.new_stream_channel(b"hi", PORT));
    let p1 = fut.poll();
    assert!(matches!(p1, Poll::Pending), "C07.open.waits: the open call waits for the peer's answer");
    core::mem::forget(p1);
    let (seen, b) = next_out(&mut td.tx_msg_rx);
    assert!(seen.op == 0 && seen.id == A, "C07.open.fresh_id: the Connect proposes a non-zero id that is not in use (the generator offered 0 and an id in use first)");
    assert!(seen.arg == 3, "C03.connect.window: the Connect advertises exactly the own receive window");
    let b = b.unwrap();
    assert!(b.len() == 13 && be16(&b, 9) == PORT && b[11] == b'h' && b[12] == b'i', "C07.open.target: the Connect carries port and host byte-exact");
    core::mem::forget(b);
    assert!(out_empty(&mut td.tx_msg_rx), "C07.open.single: one Connect per attempt");
    assert!(matches!(td.task.flows.read().get(&A), Some(FlowSlot::Requested(_))) && tlen(&td) == 2, "C07.open.slot: a Requested slot under the proposed id, the other flow untouched");
    core::mem::forget((fut, td, brx));
}

pub(crate) fn be16(b: &[u8], i: usize) -> u16 {
    (b[i] as u16) * 256 + b[i + 1] as u16
}

/// every attempt rejected: after exactly `max_flow_id_retries` Connects with pairwise fresh ids the
/// call fails with FlowIdRejected; no slot is left behind
fn m_open_rejected_gives_up_with(retries: usize) {
    let (mux, mut td) = mux_world(Options::new().max_flow_id_retries(retries), [A, C, 0x55, 0x66]);
    let mut fut = Leaky::new(mux.new_stream_channel(b"", 0));
    let mut k = 0;
    let mut last_id = 0;
    while k < retries {
        let p = fut.poll();
        assert!(matches!(p, Poll::Pending), "C07.retry.waits");
        core::mem::forget(p);
        let seen = next_seen(&mut td.tx_msg_rx);
        assert!(seen.op == 0 && seen.id != 0 && seen.id != last_id, "C07.retry.fresh: each attempt proposes a fresh non-zero id");
        assert!(out_empty(&mut td.tx_msg_rx), "C07.retry.one_connect_per_attempt");
        last_id = seen.id;
        // the peer rejects: Reset for that id
        let r = poll_once(td.task.process_frame(Frame::new_reset(seen.id), false));
        core::mem::forget(r);
        assert!(tlen(&td) == 0, "C07.retry.freed: the rejected id is released");
        k += 1;
    }
    let p = fut.poll();
    assert!(matches!(p, Poll::Ready(Err(Error::FlowIdRejected))), "C07.retry.bound: after max_flow_id_retries rejected attempts the call fails with FlowIdRejected");
    core::mem::forget(p);
    assert!(out_empty(&mut td.tx_msg_rx) && tlen(&td) == 0, "C07.retry.no_extra: no further Connect, nothing left in the table");
    core::mem::forget((fut, td));
}

/// every attempt rejected, max_flow_id_retries = 1: one Connect, then FlowIdRejected
#[cfg_attr(kani, kani::proof)]
#[cfg_attr(kani, kani::stub(catch_unwind, call_through))]
#[cfg_attr(kani, kani::unwind(7))]
#[cfg_attr(verif_replay, test)]
fn m_open_rejected_gives_up_r1() {
    m_open_rejected_gives_up_with(1)
}

/// every attempt rejected, max_flow_id_retries = 2: two Connects with fresh ids, then FlowIdRejected
#[cfg_attr(kani, kani::proof)]
#[cfg_attr(kani, kani::stub(catch_unwind, call_through))]
#[cfg_attr(kani, kani::unwind(7))]
#[cfg_attr(verif_replay, test)]
fn m_open_rejected_gives_up_r2() {
    m_open_rejected_gives_up_with(2)
}

/// rejected once, then accepted: the stream is the one of the SECOND id
#[cfg_attr(kani, kani::proof)]
#[cfg_attr(kani, kani::stub(catch_unwind, call_through))]
#[cfg_attr(kani, kani::unwind(7))]
#[cfg_attr(verif_replay, test)]
fn m_open_rejected_then_accepted() {
    let peer: u32 = kani::any();
    let (mux, mut td) = mux_world(Options::new().max_flow_id_retries(2), [A, C, 0x55, 0x66]);
    let mut fut = Leaky::new(mux.new_stream_channel(b"", 0));
    let p = fut.poll();
    core::mem::forget(p);
    let s1 = next_seen(&mut td.tx_msg_rx);
    let r = poll_once(td.task.process_frame(Frame::new_reset(s1.id), false));
    core::mem::forget(r);
    let p = fut.poll();
    assert!(matches!(p, Poll::Pending), "C07.retry2.waits");
    core::mem::forget(p);
    let s2 = next_seen(&mut td.tx_msg_rx);
    assert!(s1.id == A && s2.op == 0 && s2.id == C, "C07.retry2.second_connect: the retry proposes the next fresh id");
    let r = poll_once(td.task.process_frame(Frame::new_acknowledge(C, peer), false));
    core::mem::forget(r);
    let p = fut.poll();
    match &p {
        Poll::Ready(Ok(s)) => assert!(s.flow_id == C && s.psh_send_remaining.load(Ordering::Relaxed) == peer, "C07.retry2.stream: the stream belongs to the accepted id"),
        _ => assert!(false, "C07.retry2.completes"),
    }
    core::mem::forget(p);
    assert!(tlen(&td) == 1 && out_empty(&mut td.tx_msg_rx), "C07.retry2.exactly_one");
    core::mem::forget((fut, td));
}

/// the connection task is gone: open fails with Closed (C08: multiplexor calls return Closed)
#[cfg_attr(kani, kani::proof)]
#[cfg_attr(kani, kani::stub(catch_unwind, call_through))]
#[cfg_attr(kani, kani::unwind(7))]
#[cfg_attr(verif_replay, test)]
fn m_open_after_teardown_is_closed() {
    let (mux, mut td) = mux_world(Options::new(), [A, C, 0x55, 0x66]);
    td.tx_msg_rx.close(); // what wind_down does first
    let mut fut = Leaky::new(mux.new_stream_channel(b"h", 1));
    let p = fut.poll();
    assert!(matches!(p, Poll::Ready(Err(Error::Closed))), "C08.open.closed: opening a stream on an ended connection fails with Closed");
    core::mem::forget(p);
    core::mem::forget((fut, td));
}

/// a pending open is resolved by teardown (slot drained with None -> Closed? no: None means retry;
/// the retry then fails with Closed because the outbound queue is closed)
#[cfg_attr(kani, kani::proof)]
#[cfg_attr(kani, kani::stub(catch_unwind, call_through))]
#[cfg_attr(kani, kani::unwind(7))]
#[cfg_attr(verif_replay, test)]
fn m_open_pending_across_teardown() {
    let (mux, mut td) = mux_world(Options::new().max_flow_id_retries(3), [A, C, 0x55, 0x66]);
    let mut fut = Leaky::new(mux.new_stream_channel(b"h", 1));
    let p = fut.poll();
    assert!(matches!(p, Poll::Pending), "C08.open.pending");
    core::mem::forget(p);
    // teardown as in wind_down: close the outbound queue, then answer every slot
    td.tx_msg_rx.close();
    let slot = td.task.flows.write().remove(&A);
    match slot {
        Some(s) => td.task.close_flow_local(s, A, true),
        None => assert!(false, "C08.open.slot"),
    }
    let p = fut.poll();
    assert!(matches!(p, Poll::Ready(Err(Error::Closed))), "C08.open.resolves: a pending open is completed with Closed when the connection ends, it neither hangs nor yields a stream");
    core::mem::forget(p);
    core::mem::forget((fut, td));
}

// ======================================================================== request_bind
/// one Bind frame with (fresh id, type, host, port); resolves true on Finish
fn m_request_bind_frame_and_answer_with(dgram: bool, accept: bool) {
    let port: u16 = PORT;
    let bt = if dgram { BindType::Datagram } else { BindType::Stream };
    let (mux, mut td) = mux_world(Options::new(), [0, A, C, C]);
    let mut fut = Leaky::new(mux.request_bind(b"ho", port, bt));
    let p = fut.poll();
    assert!(matches!(p, Poll::Pending), "C15.request.waits: the request waits for the peer's decision");
    core::mem::forget(p);
    let (seen, b) = next_out(&mut td.tx_msg_rx);
    let b = b.unwrap();
    assert!(seen.op == 5 && seen.id == A, "C15.request.frame: one Bind frame under a fresh non-zero id");
    assert!(b.len() == 10 && b[5] == (bt as u8) && be16(&b, 6) == port && b[8] == b'h' && b[9] == b'o', "C15.request.fields: type, port and host exactly as requested");
    core::mem::forget(b);
    assert!(out_empty(&mut td.tx_msg_rx), "C15.request.single");
    assert!(matches!(td.task.flows.read().get(&A), Some(FlowSlot::BindRequested(_))), "C15.request.slot");
    let answer = if accept { Frame::new_finish(A) } else { Frame::new_reset(A) };
    let r = poll_once(td.task.process_frame(answer, false));
    core::mem::forget(r);
    let p = fut.poll();
    match &p {
        Poll::Ready(Ok(v)) => assert!(*v == accept, "C15.request.decision: true iff the peer answered Finish, false on Reset"),
        _ => assert!(false, "C15.request.resolves: the request resolves once the answer arrives"),
    }
    core::mem::forget(p);
    assert!(tlen(&td) == 0 && out_empty(&mut td.tx_msg_rx), "C15.request.freed: the id is free afterwards, nothing else is sent");
    core::mem::forget((fut, td));
}

/// a stream bind request that the peer accepts (Finish): one Bind frame with the fields, resolves true
#[cfg_attr(kani, kani::proof)]
#[cfg_attr(kani, kani::stub(catch_unwind, call_through))]
#[cfg_attr(kani, kani::unwind(7))]
#[cfg_attr(verif_replay, test)]
fn m_request_bind_stream_accepted() {
    m_request_bind_frame_and_answer_with(false, true)
}

/// a datagram bind request that the peer rejects (Reset): resolves false
#[cfg_attr(kani, kani::proof)]
#[cfg_attr(kani, kani::stub(catch_unwind, call_through))]
#[cfg_attr(kani, kani::unwind(7))]
#[cfg_attr(verif_replay, test)]
fn m_request_bind_datagram_rejected() {
    m_request_bind_frame_and_answer_with(true, false)
}

/// two concurrent requests are answered independently, in the opposite order
#[cfg_attr(kani, kani::proof)]
#[cfg_attr(kani, kani::stub(catch_unwind, call_through))]
#[cfg_attr(kani, kani::unwind(7))]
#[cfg_attr(verif_replay, test)]
fn m_request_bind_independent() {
    let (mux, mut td) = mux_world(Options::new(), [A, C, 0x55, 0x66]);
    let mut f1 = Leaky::new(mux.request_bind(b"a", 1, BindType::Stream));
    let mut f2 = Leaky::new(mux.request_bind(b"b", 2, BindType::Stream));
    let p = f1.poll();
    core::mem::forget(p);
    let p = f2.poll();
    core::mem::forget(p);
    let s1 = next_seen(&mut td.tx_msg_rx);
    let s2 = next_seen(&mut td.tx_msg_rx);
    assert!(s1.id == A && s2.id == C && tlen(&td) == 2, "C15.indep.ids: distinct ids");
    // the second is accepted first
    let r = poll_once(td.task.process_frame(Frame::new_finish(C), false));
    core::mem::forget(r);
    let p1 = f1.poll();
    assert!(matches!(p1, Poll::Pending), "C15.indep.first_still_waits: an answer to one request does not resolve another");
    core::mem::forget(p1);
    let p2 = f2.poll();
    assert!(matches!(p2, Poll::Ready(Ok(true))), "C15.indep.second_true");
    core::mem::forget(p2);
    let r = poll_once(td.task.process_frame(Frame::new_reset(A), false));
    core::mem::forget(r);
    let p1 = f1.poll();
    assert!(matches!(p1, Poll::Ready(Ok(false))), "C15.indep.first_false");
    core::mem::forget(p1);
    assert!(tlen(&td) == 0, "C15.indep.freed");
    core::mem::forget((f1, f2, td));
}

/// connection ended before the answer: false or Closed, never a hang
#[cfg_attr(kani, kani::proof)]
#[cfg_attr(kani, kani::stub(catch_unwind, call_through))]
#[cfg_attr(kani, kani::unwind(7))]
#[cfg_attr(verif_replay, test)]
fn m_request_bind_connection_ended() {
    let before: bool = kani::any();
    let (mux, mut td) = mux_world(Options::new(), [A, C, 0x55, 0x66]);
    if before {
        td.tx_msg_rx.close();
    }
    let mut fut = Leaky::new(mux.request_bind(b"a", 1, BindType::Stream));
    let p = fut.poll();
    if before {
        assert!(matches!(p, Poll::Ready(Err(Error::Closed))), "C15.ended.before: a request on an ended connection fails with Closed");
        core::mem::forget(p);
    } else {
        assert!(matches!(p, Poll::Pending), "C15.ended.waits");
        core::mem::forget(p);
        let slot = td.task.flows.write().remove(&A);
        match slot {
            Some(s) => td.task.close_flow_local(s, A, true),
            None => assert!(false, "C15.ended.slot"),
        }
        let p = fut.poll();
        assert!(matches!(p, Poll::Ready(Ok(false))), "C15.ended.false: teardown resolves a pending bind request with false");
        core::mem::forget(p);
    }
    core::mem::forget((fut, td));
}

// ======================================================================== send_datagram
/// host <= 255: exactly one Datagram frame with the four fields; no table entry, any id incl. 0
#[cfg_attr(kani, kani::proof)]
#[cfg_attr(kani, kani::stub(catch_unwind, call_through))]
#[cfg_attr(kani, kani::unwind(7))]
#[cfg_attr(verif_replay, test)]
fn m_send_datagram_ok() {
    let id: u32 = kani::any();
    let port: u16 = kani::any();
    let data: [u8; 2] = kani::any();
    let (mux, mut td) = mux_world(Options::new(), [A, C, 0x55, 0x66]);
    let d = Datagram { flow_id: id, target_host: Bytes::from_static(b"ho"), target_port: port, data: Bytes::copy_from_slice(&data) };
    let p = poll_once(mux.send_datagram(d));
    assert!(matches!(p, Poll::Ready(Ok(()))), "C11.send.ok: accepted without waiting");
    core::mem::forget(p);
    let (seen, b) = next_out(&mut td.tx_msg_rx);
    let b = b.unwrap();
    assert!(seen.op == 6 && seen.id == id, "C11.send.frame: one Datagram frame with the given flow id");
    assert!(b.len() == 12 && b[5] == 2 && be16(&b, 6) == port && b[8] == b'h' && b[9] == b'o' && b[10] == data[0] && b[11] == data[1],
        "C11.send.fields: host, port and payload unchanged, in the PROTOCOL.md layout");
    core::mem::forget(b);
    assert!(out_empty(&mut td.tx_msg_rx) && tlen(&td) == 0, "C11.send.once: sent once, no flow state created");
    core::mem::forget(td);
}

static HOST255: [u8; 255] = [b'a'; 255];
static HOST256: [u8; 256] = [b'a'; 256];

/// the 255/256 boundary of the host length gate
fn m_send_datagram_host_gate_with(long: bool) {
    let id: u32 = kani::any();
    let (mux, mut td) = mux_world(Options::new(), [A, C, 0x55, 0x66]);
    let host = if long { Bytes::from_static(&HOST256) } else { Bytes::from_static(&HOST255) };
    let d = Datagram { flow_id: id, target_host: host, target_port: 9, data: Bytes::new() };
    let p = poll_once(mux.send_datagram(d));
    if long {
        assert!(matches!(p, Poll::Ready(Err(Error::DatagramHostTooLong))), "C11.gate.refused: a host longer than 255 bytes is refused with DatagramHostTooLong");
        core::mem::forget(p);
        assert!(out_empty(&mut td.tx_msg_rx) && tlen(&td) == 0, "C11.gate.no_effect: and has no other effect");
    } else {
        assert!(matches!(p, Poll::Ready(Ok(()))), "C11.gate.255_ok: 255 bytes are accepted");
        core::mem::forget(p);
        let (seen, b) = next_out(&mut td.tx_msg_rx);
        let b = b.unwrap();
        assert!(seen.op == 6 && b.len() == 5 + 1 + 255 + 2 && b[5] == 255, "C11.gate.255_frame");
        core::mem::forget(b);
    }
    core::mem::forget(td);
}

/// a target host of exactly 255 bytes is accepted and framed
#[cfg_attr(kani, kani::proof)]
#[cfg_attr(kani, kani::stub(catch_unwind, call_through))]
#[cfg_attr(kani, kani::unwind(7))]
#[cfg_attr(verif_replay, test)]
fn m_send_datagram_host_255_accepted() {
    m_send_datagram_host_gate_with(false)
}

/// a target host of 256 bytes is refused with DatagramHostTooLong and has no other effect
#[cfg_attr(kani, kani::proof)]
#[cfg_attr(kani, kani::stub(catch_unwind, call_through))]
#[cfg_attr(kani, kani::unwind(7))]
#[cfg_attr(verif_replay, test)]
fn m_send_datagram_host_256_refused() {
    m_send_datagram_host_gate_with(true)
}

/// connection ended: Closed
#[cfg_attr(kani, kani::proof)]
#[cfg_attr(kani, kani::stub(catch_unwind, call_through))]
#[cfg_attr(kani, kani::unwind(7))]
#[cfg_attr(verif_replay, test)]
fn m_api_after_connection_end() {
    let (mux, mut td) = mux_world(Options::new().bind_buffer_size(1), [A, C, 0x55, 0x66]);
    // the connection task has ended and dropped its ends
    let TaskData { task, mut tx_msg_rx, dropped_flows_rx } = td;
    tx_msg_rx.close();
    // SAFETY: each field is read out exactly once and `task` is leaked afterwards (never dropped)
    let datagram_tx = unsafe { core::ptr::read(&task.datagram_tx) };
    let con_recv_stream_tx = unsafe { core::ptr::read(&task.con_recv_stream_tx) };
    let bnd_request_tx = unsafe { core::ptr::read(&task.bnd_request_tx) };
    core::mem::forget(task);
    drop(datagram_tx);
    drop(con_recv_stream_tx);
    drop(bnd_request_tx);
    let d = Datagram { flow_id: 1, target_host: Bytes::new(), target_port: 9, data: Bytes::new() };
    let p = poll_once(mux.send_datagram(d));
    assert!(matches!(p, Poll::Ready(Err(Error::Closed))), "C08.api.send_datagram: Closed after the connection ended");
    core::mem::forget(p);
    let p = poll_once(mux.get_datagram());
    assert!(matches!(p, Poll::Ready(Err(Error::Closed))), "C08.api.get_datagram: a pending/later datagram receive completes with Closed");
    core::mem::forget(p);
    let p = poll_once(mux.accept_stream_channel());
    assert!(matches!(p, Poll::Ready(Err(Error::Closed))), "C08.api.accept: a pending/later accept completes with Closed");
    core::mem::forget(p);
    let p = poll_once(mux.next_bind_request());
    assert!(matches!(p, Poll::Ready(Err(Error::Closed))), "C08.api.next_bind: Closed");
    core::mem::forget(p);
    core::mem::forget((tx_msg_rx, dropped_flows_rx));
}

/// dropping the Multiplexor handle tells the task (flow id 0 on the dropped-flows channel), once
#[cfg_attr(kani, kani::proof)]
#[cfg_attr(kani, kani::stub(catch_unwind, call_through))]
#[cfg_attr(kani, kani::unwind(7))]
#[cfg_attr(verif_replay, test)]
fn m_drop_multiplexor_signals_task() {
    let (mut mux, mut td) = mux_world(Options::new(), [A, C, 0x55, 0x66]);
    // SAFETY: dropped exactly once, never used afterwards
    unsafe { core::mem::ManuallyDrop::drop(&mut mux) };
    assert!(td.dropped_flows_rx.len() == 1, "C08.drop.signal: one notification");
    let got = td.dropped_flows_rx.try_recv();
    assert!(matches!(got, Ok(0)), "C08.drop.zero: dropping the handle signals flow id 0 to the connection task");
    core::mem::forget(td);
}

// ======================================================================== process_dropped_flows_task
/// dropped stream ids are closed one by one (Reset unless finished); id 0 ends the loop so that the
/// task goes to the flushing wind-down
fn m_dropped_flows_task_with(with_zero: bool) {
    let mut w = world(4, 2, false, 1);
    let mut sb = bystander_established(&w);
    let (mut sa, da) = w.task.new_stream_shared(A, 3, Bytes::new(), 0);
    w.task.flows.write().insert(A, FlowSlot::Established(da));
    w.task.dropped_flows_tx.send(A).ok();
    if with_zero {
        w.task.dropped_flows_tx.send(0).ok();
    }
    let World { task, mut tx_msg_rx, mut dropped_rx, con_rx, dgram_rx, bnd_rx } = w;
    let p = poll_once(task.process_dropped_flows_task(&mut dropped_rx));
    if with_zero {
        assert!(matches!(p, Poll::Ready(())), "C08.dropped.zero_ends: the handle-dropped signal ends the loop");
    } else {
        assert!(matches!(p, Poll::Pending), "C06.dropped.waits: otherwise the loop keeps waiting");
    }
    let seen = next_seen(&mut tx_msg_rx);
    assert!(seen.op == 2 && seen.id == A && seen.len == 5, "C06.dropped.reset: a dropped, unfinished stream is reported to the peer with one Reset");
    assert!(out_empty(&mut tx_msg_rx), "C06.dropped.single");
    assert!(!task.flows.read().contains_key(&A) && task.flows.read().len() == 1, "C06.dropped.freed: its slot is freed, the other flow stays");
    core::mem::forget((sa, sb, task, tx_msg_rx, dropped_rx, con_rx, dgram_rx, bnd_rx));
}

/// a dropped stream id: its flow is closed with one Reset, the loop keeps waiting
#[cfg_attr(kani, kani::proof)]
#[cfg_attr(kani, kani::stub(catch_unwind, call_through))]
#[cfg_attr(kani, kani::unwind(7))]
#[cfg_attr(verif_replay, test)]
fn m_dropped_flows_task_stream() {
    m_dropped_flows_task_with(false)
}

/// a dropped stream id followed by the handle-dropped signal 0: the loop ends (flushing wind-down)
#[cfg_attr(kani, kani::proof)]
#[cfg_attr(kani, kani::stub(catch_unwind, call_through))]
#[cfg_attr(kani, kani::unwind(7))]
#[cfg_attr(verif_replay, test)]
fn m_dropped_flows_task_handle() {
    m_dropped_flows_task_with(true)
}

// ======================================================================== a recording WebSocket
/// what reached the sink, in order; the source is a script of at most 2 messages followed by
/// end-of-stream (`None`)
pub(crate) struct RecWs {
    pub sent: [Seen; 6],
    pub sent_n: usize,
    pub closed_at: usize, // value of `sent_n` when poll_close was called (usize::MAX = not yet)
    pub closes: usize,
    pub flushes: usize,
    pub sink_ready: bool,
    pub send_fails: bool,
    pub incoming: [Option<Message>; 2],
    pub incoming_i: usize,
}
impl RecWs {
    pub(crate) fn new() -> Self {
        RecWs { sent: [NOTHING; 6], sent_n: 0, closed_at: usize::MAX, closes: 0, flushes: 0, sink_ready: true, send_fails: false, incoming: [None, None], incoming_i: 0 }
    }
}
fn seen_of(m: &Message) -> Seen {
    match m {
        Message::Binary(b) => Seen { op: b[0] % 16, id: be32(b, 1), arg: if b.len() >= 9 { be32(b, 5) } else { 0 }, len: b.len() },
        Message::Ping => Seen { op: 0xF1, id: 0, arg: 0, len: 0 },
        Message::Pong => Seen { op: 0xF2, id: 0, arg: 0, len: 0 },
        Message::Close => Seen { op: 0xF3, id: 0, arg: 0, len: 0 },
    }
}
impl WebSocket for RecWs {
    fn poll_ready_unpin(&mut self, _cx: &mut Context<'_>) -> Poll<Result<()>> {
        if self.sink_ready { Poll::Ready(Ok(())) } else { Poll::Pending }
    }
    fn start_send_unpin(&mut self, item: Message) -> Result<()> {
        if self.send_fails {
            core::mem::forget(item);
            return Err(Error::Closed);
        }
        self.sent[self.sent_n] = seen_of(&item);
        self.sent_n += 1;
        core::mem::forget(item);
        Ok(())
    }
    fn poll_flush_unpin(&mut self, _cx: &mut Context<'_>) -> Poll<Result<()>> {
        self.flushes += 1;
        Poll::Ready(Ok(()))
    }
    fn poll_close_unpin(&mut self, _cx: &mut Context<'_>) -> Poll<Result<()>> {
        self.closes += 1;
        if self.closed_at == usize::MAX {
            self.closed_at = self.sent_n;
        }
        Poll::Ready(Ok(()))
    }
    fn poll_next_unpin(&mut self, _cx: &mut Context<'_>) -> Poll<Option<Result<Message>>> {
        if self.incoming_i < 2 {
            let i = self.incoming_i;
            self.incoming_i += 1;
            match self.incoming[i].take() {
                Some(m) => Poll::Ready(Some(Ok(m))),
                None => Poll::Ready(None),
            }
        } else {
            Poll::Ready(None)
        }
    }
}

pub(crate) struct WorldR {
    pub task: Task<RecWs, ZeroTime>,
    pub tx_msg_rx: mpsc::UnboundedReceiver<Message>,
    pub dropped_rx: mpsc::UnboundedReceiver<u32>,
    pub con_rx: mpsc::Receiver<MuxStream>,
    pub dgram_rx: mpsc::Receiver<Datagram>,
}
pub(crate) fn world_r(ws: RecWs) -> WorldR {
    let (tx_msg_tx, tx_msg_rx) = mpsc::unbounded_channel();
    let (dropped_flows_tx, dropped_rx) = mpsc::unbounded_channel();
    let (con_recv_stream_tx, con_rx) = mpsc::channel(2);
    let (datagram_tx, dgram_rx) = mpsc::channel(1);
    let task = Task {
        ws: Mutex::new(ws),
        flows: Arc::new(RwLock::new(HashMap::with_hasher(IntHasher::default()))),
        tx_msg_tx,
        dropped_flows_tx,
        con_recv_stream_tx,
        last_pong_timestamp: Mutex::new(ZeroTime),
        default_rwnd_threshold: 2,
        rwnd: 4,
        datagram_tx,
        bnd_request_tx: None,
        keepalive_interval: OptionalDuration::NONE,
        keepalive_timeout: OptionalDuration::NONE,
    };
    WorldR { task, tx_msg_rx, dropped_rx, con_rx, dgram_rx }
}

// ======================================================================== outbound queue drain
/// the single outbound queue is drained in FIFO order into the sink: nothing reordered, dropped or
/// duplicated; a sink that is not ready leaves the message queued (nothing lost on Pending)
#[cfg_attr(kani, kani::proof)]
#[cfg_attr(kani, kani::stub(catch_unwind, call_through))]
#[cfg_attr(kani, kani::unwind(7))]
#[cfg_attr(verif_replay, test)]
fn m_outbound_fifo() {
    let ida: u32 = kani::any();
    let idb: u32 = kani::any();
    let n: u32 = kani::any();
    let ready: bool = kani::any();
    let mut ws = RecWs::new();
    ws.sink_ready = ready;
    let w = world_r(ws);
    w.task.tx_msg_tx.send(Frame::new_acknowledge(ida, n).into()).ok();
    w.task.tx_msg_tx.send(Frame::new_finish(idb).into()).ok();
    let WorldR { task, mut tx_msg_rx, dropped_rx, con_rx, dgram_rx } = w;
    let p = poll_once(task.process_message_to_send_task(&mut tx_msg_rx));
    assert!(matches!(p, Poll::Pending), "C02.out.loop: the send loop keeps running");
    core::mem::forget(p);
    let g = task.ws.lock();
    if ready {
        assert!(g.sent_n == 2, "C02.out.all: every queued message reaches the sink exactly once");
        assert!(g.sent[0].op == 1 && g.sent[0].id == ida && g.sent[0].arg == n && g.sent[0].len == 9, "C02.out.first: first queued, first sent, unchanged");
        assert!(g.sent[1].op == 3 && g.sent[1].id == idb && g.sent[1].len == 5, "C02.out.second: order preserved");
        assert!(g.flushes >= 1 && tx_msg_rx.len() == 0, "C02.out.flushed");
    } else {
        assert!(g.sent_n == 0 && tx_msg_rx.len() == 2, "C02.out.backpressure: with the sink not ready nothing is taken from the queue (nothing lost)");
    }
    drop(g);
    core::mem::forget((task, tx_msg_rx, dropped_rx, con_rx, dgram_rx));
}

// ======================================================================== wind_down
/// teardown contract (safety half of C08): every pending operation is answered, writes are refused,
/// readers get what was delivered and then end-of-stream, no Reset is emitted by the teardown, and
/// -- if and only if the local handle was dropped -- everything queued before is still handed to the
/// sink, in order, before the sink is closed.
fn m_wind_down_with(drain: bool, late: bool) {
    let mut ws = RecWs::new();
    if late {
        // a Push for A that was already in the source when the sink was closed
        ws.incoming[0] = Some(Message::Binary(Bytes::from_static(&[0x74, 0x01, 0x02, 0x03, 0x04, b'z'])));
    }
    let w = world_r(ws);
    let (mut sa, da) = w.task.new_stream_shared(A, 3, Bytes::new(), 0);
    da.sender.as_ref().unwrap().try_send(Bytes::from_static(b"p")).ok();
    w.task.flows.write().insert(A, FlowSlot::Established(da));
    let (ctx, mut crx) = oneshot::channel::<Option<MuxStream>>();
    w.task.flows.write().insert(C, FlowSlot::Requested(ctx));
    let (btx, mut brx) = oneshot::channel::<bool>();
    w.task.flows.write().insert(B, FlowSlot::BindRequested(btx));
    // queued before the end: one Push of A and a Finish of another flow
    w.task.tx_msg_tx.send(push_frame(A, b"xy").into()).ok();
    w.task.tx_msg_tx.send(Frame::new_finish(0x77).into()).ok();
    let WorldR { task, tx_msg_rx, dropped_rx, con_rx, dgram_rx } = w;
    let p = poll_once(task.wind_down(drain, tx_msg_rx, dropped_rx));
    assert!(matches!(p, Poll::Ready(())), "C08.wind_down.terminates: with a sink that accepts and a source that ends, teardown completes in one go");
    {
        let g = task.ws.lock();
        assert!(g.closes >= 1, "C08.close: the WebSocket sink is closed");
        if drain {
            assert!(g.sent_n == 2 && g.closed_at == 2, "C08.flush.all_before_close: every frame queued before the local drop is handed to the sink before it is closed");
            assert!(g.sent[0].op == 4 && g.sent[0].id == A && g.sent[0].len == 7 && g.sent[1].op == 3 && g.sent[1].id == 0x77, "C08.flush.order: in queue order, unchanged");
        } else {
            assert!(g.sent_n == 0, "C08.noflush: when the peer ended the connection nothing more is sent");
        }
    }
    assert!(task.flows.read().len() == 0, "C08.table_empty: no flow state survives the connection");
    assert!(sa.finish_sent.load(Ordering::Relaxed), "C08.writes_fail: later writes on every stream fail (BrokenPipe)");
    let mut c = cx();
    let wr = sa.poll_write_push(&c, b"q");
    assert!(matches!(wr, Poll::Ready(None)), "C08.writes_fail2");
    assert!(matches!(sa.poll_for_push(&mut c), Poll::Ready(1)) && sa.buf[0] == b'p', "C08.read.delivered_first: reads return the data already delivered");
    sa.buf = Bytes::new();
    if late {
        assert!(matches!(sa.poll_for_push(&mut c), Poll::Ready(1)) && sa.buf[0] == b'z', "C08.read.late_data: data that arrived before the peer's end is still delivered");
        sa.buf = Bytes::new();
    }
    assert!(matches!(sa.poll_for_push(&mut c), Poll::Ready(0)), "C08.read.then_eof: and then end-of-stream");
    let got = Pin::new(&mut crx).poll(&mut c);
    assert!(matches!(got, Poll::Ready(Ok(None))), "C08.pending_open: a pending open request is answered (no stream)");
    core::mem::forget(got);
    assert!(matches!(Pin::new(&mut brx).poll(&mut c), Poll::Ready(Ok(false))), "C08.pending_bind: a pending bind request resolves false");
    assert!(task.tx_msg_tx.is_closed(), "C08.queue_closed: nothing can be queued for sending any more");
    core::mem::forget((sa, crx, brx, task, con_rx, dgram_rx));
}

/// teardown after the local handle was dropped: queued frames are flushed in order before the close
#[cfg_attr(kani, kani::proof)]
#[cfg_attr(kani, kani::stub(catch_unwind, call_through))]
#[cfg_attr(kani, kani::unwind(8))]
#[cfg_attr(verif_replay, test)]
fn m_wind_down_local_drop() {
    m_wind_down_with(true, false)
}

/// teardown after the peer ended the connection: nothing more is sent
#[cfg_attr(kani, kani::proof)]
#[cfg_attr(kani, kani::stub(catch_unwind, call_through))]
#[cfg_attr(kani, kani::unwind(8))]
#[cfg_attr(verif_replay, test)]
fn m_wind_down_peer_ended() {
    m_wind_down_with(false, false)
}

/// as the local-drop case with one Push still in the source when the sink was closed: it is still delivered
#[cfg_attr(kani, kani::proof)]
#[cfg_attr(kani, kani::stub(catch_unwind, call_through))]
#[cfg_attr(kani, kani::unwind(8))]
#[cfg_attr(verif_replay, test)]
fn m_wind_down_late_data() {
    m_wind_down_with(true, true)
}

/// a writer blocked on zero credit when the connection (or the flow) ends: once writes are forbidden
/// the next poll fails with BrokenPipe -- it does not keep waiting for credit that will never come
#[cfg_attr(kani, kani::proof)]
#[cfg_attr(kani, kani::stub(catch_unwind, call_through))]
#[cfg_attr(kani, kani::unwind(4))]
#[cfg_attr(verif_replay, test)]
fn m_blocked_writer_released_on_teardown() {
    let w = world(4, 2, false, 1);
    let credit: u32 = kani::any();
    let (s, d) = w.task.new_stream_shared(A, credit, Bytes::new(), 0);
    let c = cx();
    let first = s.poll_obtain_write_permission(&c);
    kani::cover!(matches!(first, Poll::Pending));
    // what wind_down / close_flow_local do to every established slot
    d.disallow_write();
    let again = s.poll_obtain_write_permission(&c);
    assert!(matches!(again, Poll::Ready(None)), "C08.blocked_writer.released: after the connection or flow ended a blocked (or later) write fails with BrokenPipe whatever the credit");
    let one = [7u8];
    assert!(matches!(s.poll_write_push(&c, &one), Poll::Ready(None)), "C08.blocked_writer.no_send");
    core::mem::forget((s, d, w));
}

/// a stale stream handle dropped after its id was re-used must not disturb the new stream.
/// State reached by: peer Reset A (slot removed: contract t_reset_established), peer Connect A
/// (fresh slot and stream: contract t_connect_fresh) while the application still holds the handle
/// of the first stream; the state is built directly here (both preceding steps are under contract),
/// then the application drops the OLD handle and the connection task processes the notification.
#[cfg_attr(kani, kani::proof)]
#[cfg_attr(kani, kani::stub(catch_unwind, call_through))]
#[cfg_attr(kani, kani::unwind(7))]
#[cfg_attr(verif_replay, test)]
fn m_stale_handle_drop_after_reuse() {
    let w = world(4, 2, false, 1);
    // the aborted first stream of flow A: its slot is gone, its handle is still alive
    let (old, mut dold) = w.task.new_stream_shared(A, 3, Bytes::new(), 0);
    dold.disallow_write();
    drop(dold.disallow_read());
    // the stream that re-uses id A
    let (new, dnew) = w.task.new_stream_shared(A, 5, Bytes::new(), 0);
    w.task.flows.write().insert(A, FlowSlot::Established(dnew));
    let World { task, mut tx_msg_rx, mut dropped_rx, con_rx, dgram_rx, bnd_rx } = w;
    // the application lets go of the aborted stream.  `Drop for MuxStream` is under its own contract
    // (c06_drop_stream_notifies_task: it reports exactly the stream's flow id, once); its effect is
    // applied here instead of running the drop glue of all fields (Bytes vtables, Arcs: intractable)
    old.dropped_flows_tx.send(old.flow_id).ok();
    core::mem::forget((old, dold));
    let p = poll_once(task.process_dropped_flows_task(&mut dropped_rx));
    core::mem::forget(p);
    assert!(out_empty(&mut tx_msg_rx), "C06.stale_drop.no_reset: dropping the handle of an already aborted stream must not reset the stream that re-uses its id");
    assert!(matches!(task.flows.read().get(&A), Some(FlowSlot::Established(_))), "C06.stale_drop.undisturbed: the new stream keeps its slot");
    assert!(!new.finish_sent.load(Ordering::Relaxed), "C06.stale_drop.writable: and stays writable");
    core::mem::forget((new, task, tx_msg_rx, dropped_rx, con_rx, dgram_rx, bnd_rx));
}
