//! Kani harnesses (= contracts) for the functions of `Task` that go through the flow table:
//! `process_frame` (every opcode x slot class), `process_message`, `close_flow`,
//! `ack_recv_new_stream`, `con_recv_new_stream`.  Built against /verif/kani/tokio-model,
//! /verif/kani/hashbrown-model and /verif/kani/parking_lot-model (assumed contracts on
//! dependencies: FIFO channels, a finite map, a lock), logging compiled out.
//!
//! Flow ids come from the concrete alphabet {0, A, B = A^1, C}: ids are only compared and used as
//! map keys, a symbolic id makes every key comparison a solver question (measured 3-10x); all
//! numeric payload fields (windows, ports, acknowledged counts, payload bytes) are symbolic.
//! Every harness puts a bystander flow B into the table and checks that it is untouched
//! (frame condition: "no cross-talk", "a misbehaving peer disturbs only the flow it addresses").
#![allow(dead_code, unused_imports, unused_variables, unused_mut)]
use super::verif_kani::*;
use super::*;
use crate::frame::{BindPayload, BindType, ConnectPayload, Frame, OpCode, Payload, PushPayload};
use crate::loom::Ordering;
use alloc::vec::Vec;
use core::future::Future;
use core::pin::Pin;
use core::task::Waker;
use tokio::sync::oneshot;
#[cfg(kani)]
use std::panic::catch_unwind;
#[cfg(kani)]
fn call_through<F: FnOnce() -> R + std::panic::UnwindSafe, R>(f: F) -> std::thread::Result<R> {
    Ok(f())
}
#[cfg(verif_replay)]
use crate::verif_replay_kani as kani;

pub(crate) const A: u32 = 0x0102_0304;
pub(crate) const B: u32 = A ^ 1;
pub(crate) const C: u32 = 0x0a0b_0c0d;
pub(crate) const B_CREDIT: u32 = 6;
pub(crate) const PEER: u32 = 9;
pub(crate) const PORT: u16 = 0x1234;

/// poll a future exactly once with a no-op waker.  The future is leaked afterwards instead of
/// dropped: dropping a completed `async fn` future is a no-op, but CBMC does not fold the state tag
/// of the (nested) state machine and would explore the drop glue of every suspended state with
/// garbage contents (measured: 180k of 190k symex steps).
pub(crate) fn poll_once<F: Future>(f: F) -> Poll<F::Output> {
    let mut f = core::mem::ManuallyDrop::new(f);
    // SAFETY: `f` is never moved again and never dropped (leaked in place)
    let p = unsafe { Pin::new_unchecked(&mut *f) };
    let mut c = cx();
    p.poll(&mut c)
}

/// bystander flow B: a pending bind request (cheap) -- returns the receiving end
pub(crate) fn bystander_bind(w: &World) -> oneshot::Receiver<bool> {
    let (tx, rx) = oneshot::channel::<bool>();
    w.task.flows.write().insert(B, FlowSlot::BindRequested(tx));
    rx
}
pub(crate) fn bystander_bind_untouched(w: &World, rx: &mut oneshot::Receiver<bool>) -> bool {
    let g = w.task.flows.read();
    let present = matches!(g.get(&B), Some(FlowSlot::BindRequested(_)));
    drop(g);
    let mut c = cx();
    present && matches!(Pin::new(rx).poll(&mut c), Poll::Pending)
}

/// bystander flow B: an established stream with credit B_CREDIT and one queued byte "q"
pub(crate) fn bystander_established(w: &World) -> MuxStream {
    let (sb, db) = w.task.new_stream_shared(B, B_CREDIT, Bytes::new(), 0);
    db.sender.as_ref().unwrap().try_send(Bytes::from_static(b"q")).ok();
    w.task.flows.write().insert(B, FlowSlot::Established(db));
    sb
}
pub(crate) fn bystander_established_untouched(w: &World, sb: &mut MuxStream) -> bool {
    let g = w.task.flows.read();
    let ok = match g.get(&B) {
        Some(FlowSlot::Established(d)) => {
            d.sender.is_some() && !d.finish_sent.load(Ordering::Relaxed) && d.psh_send_remaining.load(Ordering::Relaxed) == B_CREDIT
        }
        _ => false,
    };
    drop(g);
    ok && sb.rx_frame_rx.len() == 1 && !sb.finish_sent.load(Ordering::Relaxed)
}

fn table_len(w: &World) -> usize {
    w.task.flows.read().len()
}
fn has(w: &World, id: u32) -> bool {
    w.task.flows.read().contains_key(&id)
}

// ======================================================================== Reset
/// Reset for a flow that is not in the table: nothing is sent (never a Reset in reply to a Reset),
/// nothing changes
#[cfg_attr(kani, kani::proof)]
#[cfg_attr(kani, kani::stub(catch_unwind, call_through))]
#[cfg_attr(kani, kani::unwind(6))]
#[cfg_attr(verif_replay, test)]
fn t_reset_absent() {
    let mut w = world(4, 2, false, 1);
    let mut rb = bystander_bind(&w);
    let r = poll_once(w.task.process_frame(Frame::new_reset(A), false));
    assert!(matches!(r, Poll::Ready(Ok(()))), "C10.reset.absent.ok: a Reset for an unknown flow is not a connection error");
    core::mem::forget(r);
    assert!(out_empty(&mut w.tx_msg_rx), "C10.reset.absent.silent: a Reset is never answered");
    assert!(table_len(&w) == 1 && bystander_bind_untouched(&w, &mut rb), "C10.reset.absent.frame: other flows untouched");
    core::mem::forget((rb, w));
}

/// Reset on an established flow: slot removed, no frame at all, writer blocked, reader EOF;
/// the neighbouring established flow is untouched
#[cfg_attr(kani, kani::proof)]
#[cfg_attr(kani, kani::stub(catch_unwind, call_through))]
#[cfg_attr(kani, kani::unwind(6))]
#[cfg_attr(verif_replay, test)]
fn t_reset_established() {
    let mut w = world(4, 2, false, 1);
    let mut sb = bystander_established(&w);
    let fin: bool = kani::any();
    let (mut sa, da) = w.task.new_stream_shared(A, 3, Bytes::new(), 0);
    sa.finish_sent.store(fin, Ordering::Relaxed);
    w.task.flows.write().insert(A, FlowSlot::Established(da));
    let r = poll_once(w.task.process_frame(Frame::new_reset(A), false));
    assert!(matches!(r, Poll::Ready(Ok(()))), "C06.reset.ok");
    core::mem::forget(r);
    assert!(out_empty(&mut w.tx_msg_rx), "C10.reset.no_reply: a Reset from the peer is never answered with a Reset");
    assert!(!has(&w, A) && table_len(&w) == 1, "C06.reset.removed: exactly the aborted flow's slot is removed");
    assert!(sa.finish_sent.load(Ordering::Relaxed), "C05+C06.reset.writes_fail: later writes on the aborted stream fail");
    let mut c = cx();
    assert!(matches!(sa.poll_for_push(&mut c), Poll::Ready(0)), "C06.reset.eof: the reader gets end-of-stream");
    assert!(bystander_established_untouched(&w, &mut sb), "C06.reset.frame: the neighbouring flow keeps its queue, credit and state");
    core::mem::forget((sa, sb, w));
}

/// Reset on a pending Connect: request resolves with None (-> retry with a new id), slot freed
#[cfg_attr(kani, kani::proof)]
#[cfg_attr(kani, kani::stub(catch_unwind, call_through))]
#[cfg_attr(kani, kani::unwind(6))]
#[cfg_attr(verif_replay, test)]
fn t_reset_requested() {
    let mut w = world(4, 2, false, 1);
    let mut rb = bystander_bind(&w);
    let (tx, mut rx) = oneshot::channel::<Option<MuxStream>>();
    w.task.flows.write().insert(A, FlowSlot::Requested(tx));
    let r = poll_once(w.task.process_frame(Frame::new_reset(A), false));
    assert!(matches!(r, Poll::Ready(Ok(()))), "C07.reset.requested.ok");
    core::mem::forget(r);
    let mut c = cx();
    let got = Pin::new(&mut rx).poll(&mut c);
    assert!(matches!(got, Poll::Ready(Ok(None))), "C07.rejected: a Connect answered with Reset resolves with None (the opener retries with a fresh id)");
    core::mem::forget(got);
    assert!(!has(&w, A) && table_len(&w) == 1, "C07.rejected.freed: the rejected id is free again");
    assert!(out_empty(&mut w.tx_msg_rx), "C10.reset.no_reply");
    assert!(bystander_bind_untouched(&w, &mut rb), "C07.rejected.frame");
    core::mem::forget((rx, rb, w));
}

/// Reset on a pending Bind: resolves false
#[cfg_attr(kani, kani::proof)]
#[cfg_attr(kani, kani::stub(catch_unwind, call_through))]
#[cfg_attr(kani, kani::unwind(6))]
#[cfg_attr(verif_replay, test)]
fn t_reset_bindrequested() {
    let mut w = world(4, 2, false, 1);
    let mut rb = bystander_bind(&w);
    let (tx, mut rx) = oneshot::channel::<bool>();
    w.task.flows.write().insert(A, FlowSlot::BindRequested(tx));
    let r = poll_once(w.task.process_frame(Frame::new_reset(A), false));
    assert!(matches!(r, Poll::Ready(Ok(()))), "C15.reset.ok");
    core::mem::forget(r);
    let mut c = cx();
    assert!(matches!(Pin::new(&mut rx).poll(&mut c), Poll::Ready(Ok(false))), "C15.reset_is_false: Reset resolves the bind request with false");
    assert!(!has(&w, A) && table_len(&w) == 1, "C15.reset.freed");
    assert!(out_empty(&mut w.tx_msg_rx), "C10.reset.no_reply");
    assert!(bystander_bind_untouched(&w, &mut rb), "C15.reset.frame");
    core::mem::forget((rx, rb, w));
}

// ======================================================================== Finish
#[cfg_attr(kani, kani::proof)]
#[cfg_attr(kani, kani::stub(catch_unwind, call_through))]
#[cfg_attr(kani, kani::unwind(6))]
#[cfg_attr(verif_replay, test)]
fn t_finish_absent() {
    let mut w = world(4, 2, false, 1);
    let mut rb = bystander_bind(&w);
    let r = poll_once(w.task.process_frame(Frame::new_finish(A), false));
    assert!(matches!(r, Poll::Ready(Ok(()))), "C10.finish.unknown.ok: an unknown flow is not a connection error");
    core::mem::forget(r);
    let seen = next_seen(&mut w.tx_msg_rx);
    assert!(seen.op == 2 && seen.id == A && seen.len == 5, "C10.finish.unknown.reset: Finish on an unknown flow is answered with Reset of that flow");
    assert!(out_empty(&mut w.tx_msg_rx), "C10.finish.unknown.single");
    assert!(table_len(&w) == 1 && bystander_bind_untouched(&w, &mut rb), "C10.finish.unknown.frame");
    core::mem::forget((rb, w));
}

/// Finish on an established flow closes only the read direction: queued data stays readable,
/// then EOF; writes and credit untouched; no frame; slot stays
#[cfg_attr(kani, kani::proof)]
#[cfg_attr(kani, kani::stub(catch_unwind, call_through))]
#[cfg_attr(kani, kani::unwind(6))]
#[cfg_attr(verif_replay, test)]
fn t_finish_established() {
    let mut w = world(4, 2, false, 1);
    let mut rb = bystander_bind(&w);
    let credit: u32 = kani::any();
    let (mut sa, da) = w.task.new_stream_shared(A, credit, Bytes::new(), 0);
    da.sender.as_ref().unwrap().try_send(Bytes::from_static(b"xy")).ok();
    // whether or not this end has already shut down its own direction
    let fin: bool = kani::any();
    sa.finish_sent.store(fin, Ordering::Relaxed);
    w.task.flows.write().insert(A, FlowSlot::Established(da));
    let r = poll_once(w.task.process_frame(Frame::new_finish(A), false));
    assert!(matches!(r, Poll::Ready(Ok(()))), "C05.finish.ok");
    core::mem::forget(r);
    assert!(out_empty(&mut w.tx_msg_rx), "C05.finish.silent: a Finish is not answered");
    {
        let g = w.task.flows.read();
        match g.get(&A) {
            Some(FlowSlot::Established(d)) => assert!(d.sender.is_none(), "C05.finish.read_closed: the inbound queue is closed"),
            _ => assert!(false, "C05+C06.finish.slot_stays: the slot stays until the application lets go of the stream, also when both directions are finished (removing it earlier lets the id be re-used while the old handle is alive)"),
        }
    }
    assert!(sa.finish_sent.load(Ordering::Relaxed) == fin && sa.psh_send_remaining.load(Ordering::Relaxed) == credit,
        "C05.finish.halfclose: the write direction and the credit are untouched");
    let mut c = cx();
    assert!(matches!(sa.poll_for_push(&mut c), Poll::Ready(2)), "C05.eof.after_data: data queued before the Finish is still returned");
    sa.buf = Bytes::new();
    assert!(matches!(sa.poll_for_push(&mut c), Poll::Ready(0)), "C05.eof.then: then end-of-stream");
    assert!(table_len(&w) == 2 && bystander_bind_untouched(&w, &mut rb), "C05.finish.frame");
    core::mem::forget((sa, rb, w));
}

/// duplicate Finish: ignored
#[cfg_attr(kani, kani::proof)]
#[cfg_attr(kani, kani::stub(catch_unwind, call_through))]
#[cfg_attr(kani, kani::unwind(6))]
#[cfg_attr(verif_replay, test)]
fn t_finish_duplicate() {
    let mut w = world(4, 2, false, 1);
    let mut rb = bystander_bind(&w);
    let (mut sa, mut da) = w.task.new_stream_shared(A, 3, Bytes::new(), 0);
    drop(da.disallow_read());
    w.task.flows.write().insert(A, FlowSlot::Established(da));
    let r = poll_once(w.task.process_frame(Frame::new_finish(A), false));
    assert!(matches!(r, Poll::Ready(Ok(()))), "C10.finish.dup.ok: a duplicate Finish is not a connection error");
    core::mem::forget(r);
    assert!(out_empty(&mut w.tx_msg_rx), "C10.finish.dup.silent");
    assert!(has(&w, A) && table_len(&w) == 2 && !sa.finish_sent.load(Ordering::Relaxed), "C10.finish.dup.nochange");
    assert!(bystander_bind_untouched(&w, &mut rb), "C10.finish.dup.frame");
    core::mem::forget((sa, rb, w));
}

/// Finish as the answer to a Connect is invalid: slot freed, Reset sent
#[cfg_attr(kani, kani::proof)]
#[cfg_attr(kani, kani::stub(catch_unwind, call_through))]
#[cfg_attr(kani, kani::unwind(6))]
#[cfg_attr(verif_replay, test)]
fn t_finish_requested() {
    let mut w = world(4, 2, false, 1);
    let mut rb = bystander_bind(&w);
    let (tx, mut rx) = oneshot::channel::<Option<MuxStream>>();
    w.task.flows.write().insert(A, FlowSlot::Requested(tx));
    let r = poll_once(w.task.process_frame(Frame::new_finish(A), false));
    assert!(matches!(r, Poll::Ready(Ok(()))), "C10.finish.requested.ok");
    core::mem::forget(r);
    let seen = next_seen(&mut w.tx_msg_rx);
    assert!(seen.op == 2 && seen.id == A, "C10.finish.requested.reset: Finish in reply to Connect is answered with Reset");
    assert!(out_empty(&mut w.tx_msg_rx), "C10.finish.requested.single");
    assert!(!has(&w, A) && table_len(&w) == 1, "C10.finish.requested.freed");
    let mut c = cx();
    let got = Pin::new(&mut rx).poll(&mut c);
    assert!(!matches!(got, Poll::Ready(Ok(Some(_)))) && !matches!(got, Poll::Pending), "C07.finish.requested.resolved: the opener is not left waiting and gets no stream");
    core::mem::forget(got);
    assert!(bystander_bind_untouched(&w, &mut rb), "C10.finish.requested.frame");
    core::mem::forget((rx, rb, w));
}

/// Finish on a pending Bind: accepted
#[cfg_attr(kani, kani::proof)]
#[cfg_attr(kani, kani::stub(catch_unwind, call_through))]
#[cfg_attr(kani, kani::unwind(6))]
#[cfg_attr(verif_replay, test)]
fn t_finish_bindrequested() {
    let mut w = world(4, 2, false, 1);
    let mut rb = bystander_bind(&w);
    let (tx, mut rx) = oneshot::channel::<bool>();
    w.task.flows.write().insert(A, FlowSlot::BindRequested(tx));
    let r = poll_once(w.task.process_frame(Frame::new_finish(A), false));
    assert!(matches!(r, Poll::Ready(Ok(()))), "C15.finish.ok");
    core::mem::forget(r);
    let mut c = cx();
    assert!(matches!(Pin::new(&mut rx).poll(&mut c), Poll::Ready(Ok(true))), "C15.finish_is_true: Finish resolves the bind request with true");
    assert!(!has(&w, A) && table_len(&w) == 1, "C15.finish.freed");
    assert!(out_empty(&mut w.tx_msg_rx), "C15.finish.silent");
    assert!(bystander_bind_untouched(&w, &mut rb), "C15.finish.frame");
    core::mem::forget((rx, rb, w));
}

// ======================================================================== Acknowledge
#[cfg_attr(kani, kani::proof)]
#[cfg_attr(kani, kani::stub(catch_unwind, call_through))]
#[cfg_attr(kani, kani::unwind(6))]
#[cfg_attr(verif_replay, test)]
fn t_ack_absent() {
    let mut w = world(4, 2, false, 1);
    let mut rb = bystander_bind(&w);
    let n: u32 = kani::any();
    let r = poll_once(w.task.process_frame(Frame::new_acknowledge(A, n), false));
    assert!(matches!(r, Poll::Ready(Ok(()))), "C10.ack.unknown.ok");
    core::mem::forget(r);
    let seen = next_seen(&mut w.tx_msg_rx);
    assert!(seen.op == 2 && seen.id == A && seen.len == 5, "C10.ack.unknown.reset: Acknowledge on an unknown flow is answered with Reset of that flow");
    assert!(out_empty(&mut w.tx_msg_rx), "C10.ack.unknown.single");
    assert!(table_len(&w) == 1 && bystander_bind_untouched(&w, &mut rb), "C10.ack.unknown.frame");
    core::mem::forget((rb, w));
}

/// Acknowledge(n) on an established flow adds exactly n to that flow's credit and to no other
#[cfg_attr(kani, kani::proof)]
#[cfg_attr(kani, kani::stub(catch_unwind, call_through))]
#[cfg_attr(kani, kani::unwind(6))]
#[cfg_attr(verif_replay, test)]
fn t_ack_established() {
    let mut w = world(4, 2, false, 1);
    let mut sb = bystander_established(&w);
    let credit: u32 = kani::any();
    let n: u32 = kani::any();
    kani::assume(credit.checked_add(n).is_some());
    let (mut sa, da) = w.task.new_stream_shared(A, credit, Bytes::new(), 0);
    w.task.flows.write().insert(A, FlowSlot::Established(da));
    let r = poll_once(w.task.process_frame(Frame::new_acknowledge(A, n), false));
    assert!(matches!(r, Poll::Ready(Ok(()))), "C03.ack.ok");
    core::mem::forget(r);
    assert!(sa.psh_send_remaining.load(Ordering::Relaxed) == credit + n, "C03.add: Acknowledge(n) increases the addressed flow's credit by exactly n");
    assert!(out_empty(&mut w.tx_msg_rx), "C03.ack.silent");
    assert!(has(&w, A) && table_len(&w) == 2 && !sa.finish_sent.load(Ordering::Relaxed), "C03.ack.state");
    assert!(bystander_established_untouched(&w, &mut sb), "C03.ack.frame: no other flow's credit moves");
    core::mem::forget((sa, sb, w));
}

/// Acknowledge on a pending Connect establishes the flow exactly there: the opener receives a stream
/// with that id and credit == the window the peer advertised
#[cfg_attr(kani, kani::proof)]
#[cfg_attr(kani, kani::stub(catch_unwind, call_through))]
#[cfg_attr(kani, kani::unwind(6))]
#[cfg_attr(verif_replay, test)]
fn t_ack_requested() {
    let rwnd: u32 = kani::any();
    let thr: u32 = kani::any();
    kani::assume(rwnd >= 1 && rwnd <= 4 && thr >= 1);
    let mut w = world(rwnd, thr, false, 1);
    let mut rb = bystander_bind(&w);
    let peer: u32 = kani::any();
    let (tx, mut rx) = oneshot::channel::<Option<MuxStream>>();
    w.task.flows.write().insert(A, FlowSlot::Requested(tx));
    let r = poll_once(w.task.process_frame(Frame::new_acknowledge(A, peer), false));
    assert!(matches!(r, Poll::Ready(Ok(()))), "C07.ack.ok");
    core::mem::forget(r);
    let mut c = cx();
    let got = Pin::new(&mut rx).poll(&mut c);
    match &got {
        Poll::Ready(Ok(Some(s))) => {
            assert!(s.flow_id == A, "C07.ack.id: the stream handed to the opener carries the id it asked for");
            assert!(s.psh_send_remaining.load(Ordering::Relaxed) == peer, "C03.init.credit: initial send credit == the window the peer advertised");
            assert!(s.psh_recvd_since == 0 && !s.finish_sent.load(Ordering::Relaxed) && s.buf.is_empty(), "C06.fresh: a new stream starts from fresh state");
            assert!(s.rwnd_threshold <= rwnd, "C04.threshold");
        }
        _ => assert!(false, "C07.ack.delivered: the opener gets its stream"),
    }
    core::mem::forget(got);
    {
        let g = w.task.flows.read();
        match g.get(&A) {
            Some(FlowSlot::Established(d)) => assert!(d.sender.is_some() && d.psh_send_remaining.load(Ordering::Relaxed) == peer, "C07.ack.established"),
            _ => assert!(false, "C07.ack.slot: the slot is Established afterwards"),
        }
    }
    assert!(out_empty(&mut w.tx_msg_rx), "C07.ack.silent");
    assert!(table_len(&w) == 2 && bystander_bind_untouched(&w, &mut rb), "C07.ack.frame");
    core::mem::forget((rx, rb, w));
}

/// Acknowledge on a pending Bind is a protocol violation of the peer: Reset, nothing else disturbed
#[cfg_attr(kani, kani::proof)]
#[cfg_attr(kani, kani::stub(catch_unwind, call_through))]
#[cfg_attr(kani, kani::unwind(6))]
#[cfg_attr(verif_replay, test)]
fn t_ack_bindrequested() {
    let mut w = world(4, 2, false, 1);
    let mut rb = bystander_bind(&w);
    let n: u32 = kani::any();
    let (tx, mut rx) = oneshot::channel::<bool>();
    w.task.flows.write().insert(A, FlowSlot::BindRequested(tx));
    let r = poll_once(w.task.process_frame(Frame::new_acknowledge(A, n), false));
    assert!(matches!(r, Poll::Ready(Ok(()))), "C10.ack.bind.ok");
    core::mem::forget(r);
    let seen = next_seen(&mut w.tx_msg_rx);
    assert!(seen.op == 2 && seen.id == A, "C10.ack.bind.reset: Acknowledge on a pending Bind is answered with Reset");
    assert!(out_empty(&mut w.tx_msg_rx), "C10.ack.bind.single");
    assert!(bystander_bind_untouched(&w, &mut rb), "C10.ack.bind.frame");
    core::mem::forget((rx, rb, w));
}

// ======================================================================== Push

/// `CowBytes::into_static` under the precondition "the payload is owned" (`CowBytes::Static`), which
/// is what the decoder hands to `process_frame` for every received message.  It is the original
/// function on that variant; on the other variant it is a failed check, so the precondition is
/// PROVED at every call site reached by the harness, not assumed.  Needed because CBMC does not fold
/// the variant tag inside the Push arm's closure and would otherwise execute the copying branch with
/// an unconstrained slice (symbolic-size allocation: no verdict in 40 min / 18 GB, DESIGN.md 9.8).
#[cfg(kani)]
pub(crate) fn into_static_owned<'a>(this: cow_bytes::CowBytes<'a>) -> Bytes
where
    'a: 'a, // makes the lifetime early-bound: Kani's stub check counts it like the impl's lifetime parameter
{
    match this {
        cow_bytes::CowBytes::Static(b) => b,
        cow_bytes::CowBytes::Temporary(_) => panic!("HARNESS-PRE: the payload handed to process_frame is owned (CowBytes::Static)"),
    }
}
#[cfg_attr(kani, kani::proof)]
#[cfg_attr(kani, kani::stub(catch_unwind, call_through))]
#[cfg_attr(kani, kani::stub(cow_bytes::CowBytes::into_static, into_static_owned))]
#[cfg_attr(kani, kani::unwind(6))]
#[cfg_attr(verif_replay, test)]
fn t_push_absent() {
    let mut w = world(4, 2, false, 1);
    let mut sb = bystander_established(&w);
    let r = poll_once(w.task.process_frame(push_frame(A, b"ab"), false));
    assert!(matches!(r, Poll::Ready(Ok(()))), "C10.push.unknown.ok");
    core::mem::forget(r);
    let seen = next_seen(&mut w.tx_msg_rx);
    assert!(seen.op == 2 && seen.id == A && seen.len == 5, "C10.push.unknown.reset: Push on an unknown flow is answered with Reset of that flow");
    assert!(out_empty(&mut w.tx_msg_rx), "C10.push.unknown.single");
    assert!(table_len(&w) == 1 && bystander_established_untouched(&w, &mut sb), "C02.push.unknown.no_crosstalk: the payload reaches no other flow");
    core::mem::forget((sb, w));
}

/// Push on an open established flow: the payload is appended to THAT flow's queue, byte-exact, and
/// to no other; nothing is sent
#[cfg_attr(kani, kani::proof)]
#[cfg_attr(kani, kani::stub(catch_unwind, call_through))]
#[cfg_attr(kani, kani::stub(cow_bytes::CowBytes::into_static, into_static_owned))]
#[cfg_attr(kani, kani::unwind(6))]
#[cfg_attr(verif_replay, test)]
fn t_push_established() {
    let mut w = world(4, 2, false, 1);
    let mut sb = bystander_established(&w);
    let data: [u8; 2] = kani::any();
    let (mut sa, da) = w.task.new_stream_shared(A, 3, Bytes::new(), 0);
    da.sender.as_ref().unwrap().try_send(Bytes::from_static(b"p")).ok();
    w.task.flows.write().insert(A, FlowSlot::Established(da));
    let r = poll_once(w.task.process_frame(Frame::new_push_owned(A, Bytes::copy_from_slice(&data)), false));
    assert!(matches!(r, Poll::Ready(Ok(()))), "C02.push.ok");
    core::mem::forget(r);
    assert!(out_empty(&mut w.tx_msg_rx), "C02.push.silent");
    assert!(sa.rx_frame_rx.len() == 2, "C02.push.appended: the payload is queued on the addressed flow, behind what was already queued");
    let first = sa.rx_frame_rx.try_recv();
    assert!(matches!(&first, Ok(b) if b.len() == 1 && b[0] == b'p'), "C02.push.order: earlier data stays in front");
    core::mem::forget(first);
    let second = sa.rx_frame_rx.try_recv();
    assert!(matches!(&second, Ok(b) if b.len() == 2 && b[0] == data[0] && b[1] == data[1]), "C02.push.bytes: the queued bytes are the frame's payload, unchanged");
    core::mem::forget(second);
    assert!(table_len(&w) == 2 && bystander_established_untouched(&w, &mut sb), "C02.push.no_crosstalk: no other flow's queue receives anything");
    core::mem::forget((sa, sb, w));
}

/// Push beyond the advertised window: that flow is aborted with one Reset, nothing else is touched
#[cfg_attr(kani, kani::proof)]
#[cfg_attr(kani, kani::stub(catch_unwind, call_through))]
#[cfg_attr(kani, kani::stub(cow_bytes::CowBytes::into_static, into_static_owned))]
#[cfg_attr(kani, kani::unwind(6))]
#[cfg_attr(verif_replay, test)]
fn t_push_overrun() {
    let mut w = world(1, 1, false, 1);
    let mut sb = bystander_established(&w);
    let (mut sa, da) = w.task.new_stream_shared(A, 3, Bytes::new(), 0);
    da.sender.as_ref().unwrap().try_send(Bytes::from_static(b"p")).ok(); // queue capacity == rwnd == 1: full
    w.task.flows.write().insert(A, FlowSlot::Established(da));
    let r = poll_once(w.task.process_frame(push_frame(A, b"ab"), false));
    assert!(matches!(r, Poll::Ready(Ok(()))), "C03.overrun.ok: an overrun is not a connection error and does not block");
    core::mem::forget(r);
    let seen = next_seen(&mut w.tx_msg_rx);
    assert!(seen.op == 2 && seen.id == A && seen.len == 5, "C03.overrun.reset: a peer that overruns the window has that flow reset");
    assert!(out_empty(&mut w.tx_msg_rx), "C03.overrun.single");
    assert!(!has(&w, A) && table_len(&w) == 1 && sa.finish_sent.load(Ordering::Relaxed), "C03.overrun.closed: the flow is closed locally");
    assert!(bystander_established_untouched(&w, &mut sb), "C03.overrun.frame: only the offending flow is affected");
    core::mem::forget((sa, sb, w));
}

/// Push after the peer's own Finish, or on a flow that is not established: refused with Reset
#[cfg_attr(kani, kani::proof)]
#[cfg_attr(kani, kani::stub(catch_unwind, call_through))]
#[cfg_attr(kani, kani::stub(cow_bytes::CowBytes::into_static, into_static_owned))]
#[cfg_attr(kani, kani::unwind(6))]
#[cfg_attr(verif_replay, test)]
fn t_push_after_finish() {
    let mut w = world(4, 2, false, 1);
    let mut rb = bystander_bind(&w);
    let (mut sa, mut da) = w.task.new_stream_shared(A, 3, Bytes::new(), 0);
    drop(da.disallow_read());
    w.task.flows.write().insert(A, FlowSlot::Established(da));
    let r = poll_once(w.task.process_frame(push_frame(A, b"ab"), false));
    assert!(matches!(r, Poll::Ready(Ok(()))), "C10.push.after_finish.ok");
    core::mem::forget(r);
    let seen = next_seen(&mut w.tx_msg_rx);
    assert!(seen.op == 2 && seen.id == A, "C10.push.after_finish.reset: data after the peer's Finish is answered with Reset");
    assert!(out_empty(&mut w.tx_msg_rx), "C10.push.after_finish.single");
    assert!(sa.rx_frame_rx.len() == 0, "C05.push.after_finish.not_delivered: nothing is delivered after end-of-stream");
    assert!(bystander_bind_untouched(&w, &mut rb), "C10.push.after_finish.frame");
    core::mem::forget((sa, rb, w));
}

#[cfg_attr(kani, kani::proof)]
#[cfg_attr(kani, kani::stub(catch_unwind, call_through))]
#[cfg_attr(kani, kani::stub(cow_bytes::CowBytes::into_static, into_static_owned))]
#[cfg_attr(kani, kani::unwind(6))]
#[cfg_attr(verif_replay, test)]
fn t_push_requested() {
    let mut w = world(4, 2, false, 1);
    let mut rb = bystander_bind(&w);
    let (tx, mut rx) = oneshot::channel::<Option<MuxStream>>();
    w.task.flows.write().insert(A, FlowSlot::Requested(tx));
    let r = poll_once(w.task.process_frame(push_frame(A, b"ab"), false));
    assert!(matches!(r, Poll::Ready(Ok(()))), "C10.push.requested.ok");
    core::mem::forget(r);
    let seen = next_seen(&mut w.tx_msg_rx);
    assert!(seen.op == 2 && seen.id == A, "C10.push.requested.reset: Push on a not yet established flow is answered with Reset");
    assert!(out_empty(&mut w.tx_msg_rx), "C10.push.requested.single");
    assert!(bystander_bind_untouched(&w, &mut rb), "C10.push.requested.frame");
    core::mem::forget((rx, rb, w));
}

/// Push for a flow whose stream was dropped locally but not yet removed: ignored, no error
#[cfg_attr(kani, kani::proof)]
#[cfg_attr(kani, kani::stub(catch_unwind, call_through))]
#[cfg_attr(kani, kani::stub(cow_bytes::CowBytes::into_static, into_static_owned))]
#[cfg_attr(kani, kani::unwind(6))]
#[cfg_attr(verif_replay, test)]
fn t_push_stream_dropped() {
    let mut w = world(4, 2, false, 1);
    let mut rb = bystander_bind(&w);
    let (mut sa, da) = w.task.new_stream_shared(A, 3, Bytes::new(), 0);
    sa.rx_frame_rx.close(); // what dropping the stream does to the queue
    w.task.flows.write().insert(A, FlowSlot::Established(da));
    let r = poll_once(w.task.process_frame(push_frame(A, b"ab"), false));
    assert!(matches!(r, Poll::Ready(Ok(()))), "C10.push.dropped.ok: late data for a locally dropped stream is not a connection error");
    core::mem::forget(r);
    assert!(sa.rx_frame_rx.len() == 0, "C10.push.dropped.not_queued");
    assert!(bystander_bind_untouched(&w, &mut rb), "C10.push.dropped.frame");
    core::mem::forget((sa, rb, w));
}

// ======================================================================== Connect

/// the Connect reaction.  `process_frame`'s Connect arm is a wrapper that awaits the async fn
/// `con_recv_new_stream`; a future awaited from inside another `async fn` lives inside the outer
/// state machine, and CBMC then no longer folds either state tag (measured: 27 k symex steps when
/// `con_recv_new_stream` is polled directly, 790 k through a one-line async wrapper, DESIGN.md 9.7).
/// The contracts below therefore poll `con_recv_new_stream` itself; that the arm passes
/// (flow id, host, port, window) through unchanged is checked once, with concrete values, by
/// `t_connect_arm_wiring` (thorough tier).
pub(crate) fn connect_direct(w: &World, host: &'static [u8], port: u16, id: u32, peer: u32) -> Poll<Result<()>> {
    poll_once(w.task.con_recv_new_stream(id, Bytes::from_static(host), port, peer))
}
/// Connect on flow id 0: rejected with Reset(0), table unchanged
#[cfg_attr(kani, kani::proof)]
#[cfg_attr(kani, kani::stub(catch_unwind, call_through))]
#[cfg_attr(kani, kani::unwind(6))]
#[cfg_attr(verif_replay, test)]
fn t_connect_zero() {
    let mut w = world(4, 2, false, 1);
    let mut rb = bystander_bind(&w);
    let peer: u32 = kani::any();
    let port: u16 = kani::any();
    let r = connect_direct(&w, b"h", port, 0, peer);
    assert!(matches!(r, Poll::Ready(Ok(()))), "C07.connect.zero.ok");
    core::mem::forget(r);
    let seen = next_seen(&mut w.tx_msg_rx);
    assert!(seen.op == 2 && seen.id == 0 && seen.len == 5, "C07.connect.zero.reset: a Connect on flow id 0 is rejected with Reset");
    assert!(out_empty(&mut w.tx_msg_rx), "C07.connect.zero.single");
    assert!(w.con_rx.len() == 0 && table_len(&w) == 1 && bystander_bind_untouched(&w, &mut rb), "C07.connect.zero.nothing: no stream is created");
    core::mem::forget((rb, w));
}

/// Connect on an id that is in use: Reset, and the existing flow is not disturbed
#[cfg_attr(kani, kani::proof)]
#[cfg_attr(kani, kani::stub(catch_unwind, call_through))]
#[cfg_attr(kani, kani::unwind(6))]
#[cfg_attr(verif_replay, test)]
fn t_connect_in_use() {
    let mut w = world(4, 2, false, 1);
    let mut sb = bystander_established(&w);
    let peer: u32 = kani::any();
    let port: u16 = kani::any();
    let r = connect_direct(&w, b"h", port, B, peer);
    assert!(matches!(r, Poll::Ready(Ok(()))), "C07.connect.inuse.ok");
    core::mem::forget(r);
    let seen = next_seen(&mut w.tx_msg_rx);
    assert!(seen.op == 2 && seen.id == B && seen.len == 5, "C07.connect.inuse.reset: a Connect on an id in use is rejected with Reset");
    assert!(out_empty(&mut w.tx_msg_rx), "C07.connect.inuse.single");
    assert!(w.con_rx.len() == 0 && table_len(&w) == 1, "C07.connect.inuse.nothing: no second stream for that id");
    assert!(bystander_established_untouched(&w, &mut sb), "C07.connect.inuse.undisturbed: the existing flow is not disturbed");
    core::mem::forget((sb, w));
}

/// Connect on a free id: Established slot, Acknowledge(id, own rwnd) queued, stream delivered with
/// the frame's host/port and credit == the peer's window
#[cfg_attr(kani, kani::proof)]
#[cfg_attr(kani, kani::stub(catch_unwind, call_through))]
#[cfg_attr(kani, kani::unwind(6))]
#[cfg_attr(verif_replay, test)]
fn t_connect_fresh() {
    let rwnd: u32 = kani::any();
    let thr: u32 = kani::any();
    kani::assume(rwnd >= 1 && rwnd <= 4 && thr >= 1);
    let mut w = world(rwnd, thr, false, 1);
    let mut rb = bystander_bind(&w);
    let peer: u32 = kani::any();
    let port: u16 = kani::any();
    let r = connect_direct(&w, b"hi", port, A, peer);
    assert!(matches!(r, Poll::Ready(Ok(()))), "C07.connect.ok");
    core::mem::forget(r);
    let seen = next_seen(&mut w.tx_msg_rx);
    assert!(seen.op == 1 && seen.id == A && seen.len == 9 && seen.arg == rwnd, "C03+C04.connect.ack_window: the Acknowledge advertises exactly the own receive window (the window the inbound queue can hold: a larger one lets a burst overrun the queue, the stream is reset although its reader keeps reading)");
    assert!(out_empty(&mut w.tx_msg_rx), "C07.connect.single");
    let got = w.con_rx.try_recv();
    match &got {
        Ok(s) => {
            assert!(s.flow_id == A && s.dest_port == port, "C07.connect.fields: the accepted stream carries the requested id and port");
            assert!(s.dest_host.len() == 2 && s.dest_host[0] == b'h' && s.dest_host[1] == b'i', "C07.connect.host: and the requested host, byte-exact");
            assert!(s.psh_send_remaining.load(Ordering::Relaxed) == peer, "C03.init.credit");
            assert!(s.psh_recvd_since == 0 && !s.finish_sent.load(Ordering::Relaxed) && s.buf.is_empty() && s.rx_frame_rx.len() == 0, "C06.fresh");
            assert!(s.rwnd_threshold <= rwnd, "C04.threshold");
        }
        Err(_) => assert!(false, "C07.connect.delivered: the accepted stream is handed to the application"),
    }
    core::mem::forget(got);
    {
        let g = w.task.flows.read();
        assert!(matches!(g.get(&A), Some(FlowSlot::Established(d)) if d.sender.is_some()), "C07.connect.slot");
    }
    assert!(table_len(&w) == 2 && bystander_bind_untouched(&w, &mut rb), "C07.connect.frame");
    core::mem::forget((rb, w));
}


/// the Connect arm of `process_frame` hands (flow id, host, port, window) of the frame to
/// `con_recv_new_stream` unchanged: concrete, pairwise different values through the dispatcher
#[cfg_attr(kani, kani::proof)]
#[cfg_attr(kani, kani::stub(catch_unwind, call_through))]
#[cfg_attr(kani, kani::unwind(6))]
#[cfg_attr(verif_replay, test)]
fn t_connect_arm_wiring() {
    let mut w = world(3, 5, false, 1);
    let r = poll_once(w.task.process_frame(connect_frame(b"hi", PORT, A, PEER), false));
    assert!(matches!(r, Poll::Ready(Ok(()))), "C07.wiring.ok");
    core::mem::forget(r);
    let seen = next_seen(&mut w.tx_msg_rx);
    assert!(seen.op == 1 && seen.id == A && seen.arg == 3, "C03.wiring.ack_window: Acknowledge(id of the frame, own window)");
    let got = w.con_rx.try_recv();
    match &got {
        Ok(s) => assert!(s.flow_id == A && s.dest_port == PORT && s.dest_host.len() == 2 && s.dest_host[0] == b'h' && s.psh_send_remaining.load(Ordering::Relaxed) == PEER,
            "C07.wiring.fields: id, host, port and the peer's window reach the stream unchanged"),
        Err(_) => assert!(false, "C07.wiring.delivered"),
    }
    core::mem::forget(got);
    core::mem::forget(w);
}

fn connect_on_pending(on_bind: bool) {
    let mut w = world(4, 2, false, 1);
    let mut rb = bystander_bind(&w); // a pending bind under id B
    let (tx, mut rx) = oneshot::channel::<Option<MuxStream>>();
    w.task.flows.write().insert(A, FlowSlot::Requested(tx)); // a pending open under id A
    let id = if on_bind { B } else { A };
    let peer: u32 = kani::any();
    let r = connect_direct(&w, b"h", 7, id, peer);
    assert!(matches!(r, Poll::Ready(Ok(()))), "C07.connect.pending.ok");
    core::mem::forget(r);
    let seen = next_seen(&mut w.tx_msg_rx);
    assert!(seen.op == 2 && seen.id == id && seen.len == 5, "C07.connect.pending.reset: a Connect on an id this endpoint is itself using for a pending request is rejected with Reset");
    assert!(out_empty(&mut w.tx_msg_rx) && w.con_rx.len() == 0, "C07.connect.pending.nothing: no Acknowledge, no stream");
    let mut c = cx();
    assert!(matches!(Pin::new(&mut rx).poll(&mut c), Poll::Pending), "C07.connect.pending.undisturbed: the pending open keeps waiting for ITS answer");
    assert!(matches!(w.task.flows.read().get(&A), Some(FlowSlot::Requested(_))) && table_len(&w) == 2, "C07.connect.pending.slot_kept");
    assert!(bystander_bind_untouched(&w, &mut rb), "C07.connect.pending.bind_undisturbed");
    core::mem::forget((rx, rb, w));
}

/// Connect whose id collides with one of OUR OWN pending requests (simultaneous open with the same
/// id, or a pending bind): the id is in use -> Reset, and the pending request is not disturbed
#[cfg_attr(kani, kani::proof)]
#[cfg_attr(kani, kani::stub(catch_unwind, call_through))]
#[cfg_attr(kani, kani::unwind(6))]
#[cfg_attr(verif_replay, test)]
fn t_connect_on_pending_open() {
    connect_on_pending(false)
}

/// as above, the colliding id is the one of a pending bind request
#[cfg_attr(kani, kani::proof)]
#[cfg_attr(kani, kani::stub(catch_unwind, call_through))]
#[cfg_attr(kani, kani::unwind(6))]
#[cfg_attr(verif_replay, test)]
fn t_connect_on_pending_bind() {
    connect_on_pending(true)
}

/// frames as the decoder produces them from a received message: payload fields are owned
/// (`CowBytes::Static` slices of the message), so `into_static()` in the dispatcher does not copy
pub(crate) fn connect_frame(host: &'static [u8], port: u16, id: u32, rwnd: u32) -> Frame<'static> {
    Frame {
        id,
        payload: Payload::Connect(ConnectPayload { rwnd, target_port: port, target_host: cow_bytes::CowBytes::Static(Bytes::from_static(host)) }),
    }
}
pub(crate) fn bind_frame(id: u32, bt: BindType, host: &'static [u8], port: u16) -> Frame<'static> {
    Frame {
        id,
        payload: Payload::Bind(BindPayload { bind_type: bt, target_port: port, target_host: cow_bytes::CowBytes::Static(Bytes::from_static(host)) }),
    }
}
pub(crate) fn push_frame(id: u32, data: &'static [u8]) -> Frame<'static> {
    Frame::new_push_owned(id, Bytes::from_static(data))
}

// ======================================================================== Bind
#[cfg_attr(kani, kani::proof)]
#[cfg_attr(kani, kani::stub(catch_unwind, call_through))]
#[cfg_attr(kani, kani::unwind(6))]
#[cfg_attr(verif_replay, test)]
fn t_bind_disabled() {
    let mut w = world(4, 2, false, 1);
    let mut rb = bystander_bind(&w);
    let port: u16 = kani::any();
    let r = poll_once(w.task.process_frame(bind_frame(A, BindType::Stream, b"h", port), false));
    assert!(matches!(r, Poll::Ready(Ok(()))), "C15.bind.disabled.ok");
    core::mem::forget(r);
    let seen = next_seen(&mut w.tx_msg_rx);
    assert!(seen.op == 2 && seen.id == A && seen.len == 5, "C15.bind.disabled.reset: with binds disabled every Bind is rejected with Reset");
    assert!(out_empty(&mut w.tx_msg_rx), "C15.bind.disabled.single");
    assert!(table_len(&w) == 1 && bystander_bind_untouched(&w, &mut rb), "C15.bind.disabled.frame");
    core::mem::forget((rb, w));
}

/// Bind with binds enabled: the application receives one request with exactly the frame's fields;
/// the endpoint itself answers nothing (the answer is the application's: c15_bindrequest_reply_then_drop)
#[cfg_attr(kani, kani::proof)]
#[cfg_attr(kani, kani::stub(catch_unwind, call_through))]
#[cfg_attr(kani, kani::unwind(6))]
#[cfg_attr(verif_replay, test)]
fn t_bind_enabled() {
    let mut w = world(4, 2, true, 1);
    let mut rb = bystander_bind(&w);
    let port: u16 = kani::any();
    let dgram: bool = kani::any();
    let bt = if dgram { BindType::Datagram } else { BindType::Stream };
    let r = poll_once(w.task.process_frame(bind_frame(A, bt, b"ho", port), false));
    assert!(matches!(r, Poll::Ready(Ok(()))), "C15.bind.ok");
    core::mem::forget(r);
    assert!(out_empty(&mut w.tx_msg_rx), "C15.bind.no_auto_answer: the endpoint does not answer on the application's behalf");
    let brx = w.bnd_rx.as_mut().unwrap();
    assert!(brx.len() == 1, "C15.bind.delivered: exactly one request reaches the application");
    let got = brx.try_recv();
    match &got {
        Ok(req) => {
            assert!(req.flow_id() == A && req.port() == port, "C15.bind.fields: id and port as in the frame");
            assert!((req.bind_type() as u8) == (bt as u8), "C15.bind.type");
            assert!(req.host().len() == 2 && req.host()[0] == b'h' && req.host()[1] == b'o', "C15.bind.host");
        }
        Err(_) => assert!(false, "C15.bind.delivered2"),
    }
    core::mem::forget(got);
    assert!(table_len(&w) == 1 && bystander_bind_untouched(&w, &mut rb), "C15.bind.frame: an incoming Bind uses no table slot");
    core::mem::forget((rb, w));
}

/// Bind whose flow id equals the id of one of the endpoint's OWN slots (a pending bind request of
/// its own: the crossing-requests case; ids are chosen by each requester independently, and an
/// incoming Bind uses no table slot, so the collision is legal): the application is still shown
/// exactly that request, nothing is answered on its behalf, and the own pending request is
/// untouched ("requests are answered independently of one another")
#[cfg_attr(kani, kani::proof)]
#[cfg_attr(kani, kani::stub(catch_unwind, call_through))]
#[cfg_attr(kani, kani::unwind(6))]
#[cfg_attr(verif_replay, test)]
fn t_bind_enabled_id_of_own_request() {
    let mut w = world(4, 2, true, 1);
    let mut rb = bystander_bind(&w);
    let port: u16 = kani::any();
    let r = poll_once(w.task.process_frame(bind_frame(B, BindType::Stream, b"ho", port), false));
    assert!(matches!(r, Poll::Ready(Ok(()))), "C15.bind.crossing.ok");
    core::mem::forget(r);
    assert!(out_empty(&mut w.tx_msg_rx), "C15.bind.crossing.no_auto_answer: a Bind under the id of an own pending request is not rejected by the endpoint");
    let brx = w.bnd_rx.as_mut().unwrap();
    assert!(brx.len() == 1, "C15.bind.crossing.delivered: the request reaches the application");
    let got = brx.try_recv();
    match &got {
        Ok(req) => {
            assert!(req.flow_id() == B && req.port() == port, "C15.bind.crossing.fields");
            assert!(req.host().len() == 2 && req.host()[0] == b'h' && req.host()[1] == b'o', "C15.bind.crossing.host");
        }
        Err(_) => assert!(false, "C15.bind.crossing.delivered2"),
    }
    core::mem::forget(got);
    assert!(table_len(&w) == 1 && bystander_bind_untouched(&w, &mut rb), "C15.bind.crossing.frame: the own pending request is untouched");
    core::mem::forget((rb, w));
}

/// the same with the id of an established stream of the endpoint: the request is delivered, nothing
/// is answered by the endpoint, and the stream keeps its queue, credit and state
#[cfg_attr(kani, kani::proof)]
#[cfg_attr(kani, kani::stub(catch_unwind, call_through))]
#[cfg_attr(kani, kani::unwind(6))]
#[cfg_attr(verif_replay, test)]
fn t_bind_enabled_id_of_stream() {
    let mut w = world(4, 2, true, 1);
    let mut sb = bystander_established(&w);
    let port: u16 = kani::any();
    let r = poll_once(w.task.process_frame(bind_frame(B, BindType::Datagram, b"ho", port), false));
    assert!(matches!(r, Poll::Ready(Ok(()))), "C15.bind.stream_id.ok");
    core::mem::forget(r);
    assert!(out_empty(&mut w.tx_msg_rx), "C15.bind.stream_id.no_auto_answer: a Bind under the id of an own stream is not rejected by the endpoint");
    let brx = w.bnd_rx.as_mut().unwrap();
    assert!(brx.len() == 1, "C15.bind.stream_id.delivered: the request reaches the application");
    let got = brx.try_recv();
    match &got {
        Ok(req) => {
            assert!(req.flow_id() == B && req.port() == port, "C15.bind.stream_id.fields");
            assert!((req.bind_type() as u8) == (BindType::Datagram as u8), "C15.bind.stream_id.type");
        }
        Err(_) => assert!(false, "C15.bind.stream_id.delivered2"),
    }
    core::mem::forget(got);
    assert!(table_len(&w) == 1 && bystander_established_untouched(&w, &mut sb), "C15+C10.bind.stream_id.frame: the stream with that id keeps queue, credit and state");
    core::mem::forget((sb, w));
}

/// during teardown (ignore_bind) a Bind is dropped silently
#[cfg_attr(kani, kani::proof)]
#[cfg_attr(kani, kani::stub(catch_unwind, call_through))]
#[cfg_attr(kani, kani::unwind(6))]
#[cfg_attr(verif_replay, test)]
fn t_bind_ignored_in_teardown() {
    let mut w = world(4, 2, true, 1);
    let r = poll_once(w.task.process_frame(bind_frame(A, BindType::Stream, b"h", 7), true));
    assert!(matches!(r, Poll::Ready(Ok(()))), "C15.bind.teardown.ok");
    core::mem::forget(r);
    assert!(out_empty(&mut w.tx_msg_rx) && w.bnd_rx.as_mut().unwrap().len() == 0, "C15.bind.teardown.silent");
    core::mem::forget(w);
}

// ======================================================================== Datagram
/// a datagram is delivered with exactly the frame's fields; it uses no flow state (id 0 allowed)
#[cfg_attr(kani, kani::proof)]
#[cfg_attr(kani, kani::stub(catch_unwind, call_through))]
#[cfg_attr(kani, kani::stub(cow_bytes::CowBytes::into_static, into_static_owned))]
#[cfg_attr(kani, kani::unwind(6))]
#[cfg_attr(verif_replay, test)]
fn t_datagram_delivered() {
    let mut w = world(4, 2, false, 2);
    let mut sb = bystander_established(&w);
    let zero: bool = kani::any();
    let id = if zero { 0 } else { B }; // also an id that names an open stream: no interference
    let port: u16 = kani::any();
    let data: [u8; 2] = kani::any();
    let r = poll_once(w.task.process_frame(
        Frame::new_datagram_owned(id, Bytes::from_static(b"ho"), port, Bytes::copy_from_slice(&data)), false));
    assert!(matches!(r, Poll::Ready(Ok(()))), "C11.dgram.ok");
    core::mem::forget(r);
    assert!(out_empty(&mut w.tx_msg_rx), "C11.dgram.silent");
    assert!(w.dgram_rx.len() == 1, "C11.dgram.once: delivered once");
    let got = w.dgram_rx.try_recv();
    match &got {
        Ok(d) => {
            assert!(d.flow_id == id && d.target_port == port, "C11.dgram.fields: flow id and port exactly as sent");
            assert!(d.target_host.len() == 2 && d.target_host[0] == b'h' && d.target_host[1] == b'o', "C11.dgram.host");
            assert!(d.data.len() == 2 && d.data[0] == data[0] && d.data[1] == data[1], "C11.dgram.payload: payload exactly as sent");
        }
        Err(_) => assert!(false, "C11.dgram.delivered"),
    }
    core::mem::forget(got);
    assert!(table_len(&w) == 1 && bystander_established_untouched(&w, &mut sb), "C11.dgram.no_stream_interference: datagrams do not touch stream state, even with a stream's id");
    core::mem::forget((sb, w));
}

/// receive queue full: the datagram is dropped, the connection goes on, nothing else is touched
#[cfg_attr(kani, kani::proof)]
#[cfg_attr(kani, kani::stub(catch_unwind, call_through))]
#[cfg_attr(kani, kani::stub(cow_bytes::CowBytes::into_static, into_static_owned))]
#[cfg_attr(kani, kani::unwind(6))]
#[cfg_attr(verif_replay, test)]
fn t_datagram_queue_full() {
    let mut w = world(4, 2, false, 1);
    let mut rb = bystander_bind(&w);
    let first = Datagram { flow_id: 1, target_host: Bytes::new(), target_port: 1, data: Bytes::from_static(b"1") };
    w.task.datagram_tx.try_send(first).ok();
    let r = poll_once(w.task.process_frame(Frame::new_datagram_owned(C, Bytes::from_static(b"h"), 9, Bytes::from_static(b"xy")), false));
    assert!(matches!(r, Poll::Ready(Ok(()))), "C11.dgram.full.ok: a full datagram queue never ends the connection and never blocks it");
    core::mem::forget(r);
    assert!(out_empty(&mut w.tx_msg_rx), "C11.dgram.full.silent");
    assert!(w.dgram_rx.len() == 1, "C11.dgram.full.dropped: the excess datagram is dropped");
    let got = w.dgram_rx.try_recv();
    match &got {
        Ok(d) => {
            assert!(d.flow_id == 1 && d.target_port == 1, "C11.dgram.full.kept: the queued datagram is still the earlier one");
        }
        Err(_) => assert!(false, "C11.dgram.full.kept2"),
    }
    core::mem::forget(got);
    assert!(bystander_bind_untouched(&w, &mut rb), "C11.dgram.full.frame");
    core::mem::forget((rb, w));
}

// ======================================================================== process_message
/// a binary message that is not a valid frame: the connection ends with InvalidFrame, no panic,
/// no flow state touched first
#[cfg_attr(kani, kani::proof)]
#[cfg_attr(kani, kani::stub(catch_unwind, call_through))]
#[cfg_attr(kani, kani::unwind(8))]
#[cfg_attr(verif_replay, test)]
fn t_message_invalid_frame() {
    let mut w = world(4, 2, false, 1);
    let mut rb = bystander_bind(&w);
    // (a) wrong version nibble, otherwise a well-formed Reset; (b) truncated header
    let id: [u8; 4] = kani::any();
    let which: bool = kani::any();
    let msg = if which {
        Message::Binary(Bytes::copy_from_slice(&[0x62, id[0], id[1], id[2], id[3]]))
    } else {
        Message::Binary(Bytes::copy_from_slice(&[0x72, id[0], id[1]]))
    };
    let r = poll_once(w.task.process_message(msg, false));
    assert!(matches!(r, Poll::Ready(Err(Error::InvalidFrame(_)))), "C10.invalid.err: an undecodable message ends the connection with a frame error");
    core::mem::forget(r);
    assert!(out_empty(&mut w.tx_msg_rx), "C10.invalid.silent");
    assert!(table_len(&w) == 1 && bystander_bind_untouched(&w, &mut rb), "C10.invalid.frame");
    core::mem::forget((rb, w));
}

/// a valid binary message goes through the decoder into the dispatcher (wire path of a Reset)
#[cfg_attr(kani, kani::proof)]
#[cfg_attr(kani, kani::stub(catch_unwind, call_through))]
#[cfg_attr(kani, kani::unwind(8))]
#[cfg_attr(verif_replay, test)]
fn t_message_binary_reset() {
    let mut w = world(4, 2, false, 1);
    let mut rb = bystander_bind(&w);
    let (tx, mut rx) = oneshot::channel::<bool>();
    w.task.flows.write().insert(A, FlowSlot::BindRequested(tx));
    let msg = Message::Binary(Bytes::from_static(&[0x72, 0x01, 0x02, 0x03, 0x04]));
    let r = poll_once(w.task.process_message(msg, false));
    assert!(matches!(r, Poll::Ready(Ok(false))), "C10.message.binary.ok");
    core::mem::forget(r);
    let mut c = cx();
    assert!(matches!(Pin::new(&mut rx).poll(&mut c), Poll::Ready(Ok(false))), "C15.wire.reset_is_false");
    assert!(!has(&w, A) && out_empty(&mut w.tx_msg_rx), "C10.message.binary.effect");
    assert!(bystander_bind_untouched(&w, &mut rb), "C10.message.binary.frame");
    core::mem::forget((rx, rb, w));
}

#[cfg_attr(kani, kani::proof)]
#[cfg_attr(kani, kani::stub(catch_unwind, call_through))]
#[cfg_attr(kani, kani::unwind(6))]
#[cfg_attr(verif_replay, test)]
fn t_message_control() {
    let mut w = world(4, 2, false, 1);
    let r = poll_once(w.task.process_message(Message::Ping, false));
    assert!(matches!(r, Poll::Ready(Ok(false))), "C10.message.ping");
    core::mem::forget(r);
    let r = poll_once(w.task.process_message(Message::Pong, false));
    assert!(matches!(r, Poll::Ready(Ok(false))), "C10.message.pong");
    core::mem::forget(r);
    let r = poll_once(w.task.process_message(Message::Close, false));
    assert!(matches!(r, Poll::Ready(Ok(true))), "C10.message.close: Close ends the read loop gracefully");
    core::mem::forget(r);
    assert!(out_empty(&mut w.tx_msg_rx) && table_len(&w) == 0, "C10.message.control.silent");
    core::mem::forget(w);
}

// ======================================================================== close_flow (dropped stream path)
/// a locally dropped stream (process_dropped_flows_task -> close_flow(id, false)): one Reset unless
/// the stream was shut down, only that slot removed
#[cfg_attr(kani, kani::proof)]
#[cfg_attr(kani, kani::stub(catch_unwind, call_through))]
#[cfg_attr(kani, kani::unwind(6))]
#[cfg_attr(verif_replay, test)]
fn t_close_flow_dropped_stream() {
    let mut w = world(4, 2, false, 1);
    let mut sb = bystander_established(&w);
    let fin: bool = kani::any();
    let (mut sa, da) = w.task.new_stream_shared(A, 3, Bytes::new(), 0);
    sa.finish_sent.store(fin, Ordering::Relaxed);
    w.task.flows.write().insert(A, FlowSlot::Established(da));
    w.task.close_flow(A, false);
    let seen = next_seen(&mut w.tx_msg_rx);
    if !fin {
        assert!(seen.op == 2 && seen.id == A && seen.len == 5, "C06.abort.reset: dropping a stream that was not shut down tells the peer with one Reset of that flow");
    } else {
        assert!(seen == NOTHING || (seen.op == 2 && seen.id == A), "C06.abort.after_finish: at most a Reset of this flow");
    }
    assert!(out_empty(&mut w.tx_msg_rx), "C06.abort.single");
    assert!(!has(&w, A) && table_len(&w) == 1, "C06.close.removed: the slot is freed for re-use, no other slot is removed");
    assert!(bystander_established_untouched(&w, &mut sb), "C06.close.frame: the neighbouring flow is untouched");
    // closing an id that is not (any more) in the table is a no-op
    w.task.close_flow(A, false);
    assert!(out_empty(&mut w.tx_msg_rx) && table_len(&w) == 1, "C06.close.idempotent: a second close of the same id does nothing");
    core::mem::forget((sa, sb, w));
}

/// re-use of a flow id after an abort: the new stream shares nothing with the old one
#[cfg_attr(kani, kani::proof)]
#[cfg_attr(kani, kani::stub(catch_unwind, call_through))]
#[cfg_attr(kani, kani::unwind(6))]
#[cfg_attr(verif_replay, test)]
fn t_reuse_after_abort() {
    let mut w = world(4, 2, false, 1);
    let (mut old, da) = w.task.new_stream_shared(A, 3, Bytes::new(), 0);
    da.sender.as_ref().unwrap().try_send(Bytes::from_static(b"old")).ok();
    w.task.flows.write().insert(A, FlowSlot::Established(da));
    w.task.close_flow(A, true);
    let peer: u32 = kani::any();
    let r = connect_direct(&w, b"h", 1, A, peer);
    assert!(matches!(r, Poll::Ready(Ok(()))), "C06.reuse.ok: a freed id can be opened again");
    core::mem::forget(r);
    let got = w.con_rx.try_recv();
    match &got {
        Ok(s) => {
            assert!(s.psh_send_remaining.load(Ordering::Relaxed) == peer && !s.finish_sent.load(Ordering::Relaxed), "C06.reuse.fresh: credit and flags of the new stream are its own");
            assert!(s.rx_frame_rx.len() == 0 && s.buf.is_empty(), "C06.reuse.no_stale_data: no data of the aborted stream is visible to the new one");
        }
        Err(_) => assert!(false, "C06.reuse.delivered"),
    }
    core::mem::forget(got);
    assert!(old.finish_sent.load(Ordering::Relaxed), "C06.reuse.old_stays_closed: the aborted stream stays closed");
    // an Acknowledge now addresses the NEW stream only
    let r = poll_once(w.task.process_frame(Frame::new_acknowledge(A, 2), false));
    core::mem::forget(r);
    assert!(old.psh_send_remaining.load(Ordering::Relaxed) == 3, "C06.reuse.no_alias: frames for the re-used id never reach the old stream");
    core::mem::forget((old, w));
}
