//! Kani harnesses (= contracts) for the functions of `Task` that go through the flow table:
//! `close_flow`, `ack_recv_new_stream`, `con_recv_new_stream`, the arms of `process_frame`,
//! `process_message`.  Built against /verif/kani/tokio-model and /verif/kani/hashbrown-model
//! (assumed contracts on dependencies: FIFO channels, a finite map).
#![allow(dead_code, unused_imports, unused_variables)]
use super::verif_kani::*;
use super::*;
use crate::frame::{BindType, Frame, OpCode};
use crate::loom::Ordering;
use alloc::vec::Vec;
use core::future::Future;
use core::pin::Pin;
use core::task::Waker;
use tokio::sync::oneshot;
#[cfg(kani)]
use std::panic::catch_unwind;
#[cfg(kani)]
fn call_through<F: FnOnce() -> R + std::panic::UnwindSafe, R>(f: F) -> std::thread::Result<R> {
    Ok(f())
}
#[cfg(verif_replay)]
use crate::verif_replay_kani as kani;

/// poll a future exactly once with a no-op waker
pub(crate) fn poll_once<F: Future>(f: F) -> Poll<F::Output> {
    let mut f = core::pin::pin!(f);
    let mut c = cx();
    f.as_mut().poll(&mut c)
}

/// Finish for a flow id that is not in the table: exactly one Reset(id), table untouched
#[cfg_attr(kani, kani::proof)]
#[cfg_attr(kani, kani::stub(catch_unwind, call_through))]
#[cfg_attr(kani, kani::unwind(6))]
#[cfg_attr(verif_replay, test)]
fn x_pf_finish_unknown() {
    let mut w = world(4, 2, false, 1);
    let id: u32 = kani::any();
    let r = poll_once(w.task.process_frame(Frame::new_finish(id), false));
    assert!(matches!(r, Poll::Ready(Ok(()))), "C10.finish.unknown.ok: an unknown flow is not a connection error");
    core::mem::forget(r);
    let (seen, _) = next_out(&mut w.tx_msg_rx);
    assert!(seen.op == 2 && seen.id == id && seen.len == 5, "C10.finish.unknown.reset: Finish on an unknown flow is answered with Reset of that flow");
    assert!(out_empty(&mut w.tx_msg_rx), "C10.finish.unknown.single");
    assert!(w.task.flows.read().len() == 0, "C10.finish.unknown.table: the table is untouched");
    core::mem::forget(w);
}

/// close_flow on a table with two established flows: only the addressed one goes
#[cfg_attr(kani, kani::proof)]
#[cfg_attr(kani, kani::stub(catch_unwind, call_through))]
#[cfg_attr(kani, kani::unwind(6))]
#[cfg_attr(verif_replay, test)]
fn x_close_flow_frame() {
    let mut w = world(4, 2, false, 1);
    let a: u32 = kani::any();
    let b: u32 = kani::any();
    let inhibit: bool = kani::any();
    kani::assume(a != b);
    let (sa, da) = w.task.new_stream_shared(a, 5, Bytes::new(), 0);
    let (sb, db) = w.task.new_stream_shared(b, 6, Bytes::new(), 0);
    w.task.flows.write().insert(a, FlowSlot::Established(da));
    w.task.flows.write().insert(b, FlowSlot::Established(db));
    w.task.close_flow(a, inhibit);
    {
        let g = w.task.flows.read();
        assert!(!g.contains_key(&a), "C06.close.removed: the aborted flow's slot is gone");
        assert!(g.len() == 1, "C06.close.frame.count: no other slot is removed");
        match g.get(&b) {
            Some(FlowSlot::Established(d)) => {
                assert!(d.sender.is_some() && !d.finish_sent.load(Ordering::Relaxed) && d.psh_send_remaining.load(Ordering::Relaxed) == 6,
                    "C06.close.frame: the other flow is left untouched");
            }
            _ => assert!(false, "C06.close.frame.present"),
        }
    }
    let (seen, _) = next_out(&mut w.tx_msg_rx);
    if inhibit {
        assert!(seen == NOTHING, "C10.reset.no_reply");
    } else {
        assert!(seen.op == 2 && seen.id == a, "C06.close.reset");
    }
    assert!(out_empty(&mut w.tx_msg_rx), "C06.close.single");
    assert!(sa.finish_sent.load(Ordering::Relaxed) && !sb.finish_sent.load(Ordering::Relaxed), "C06.close.writes");
    core::mem::forget((sa, sb, w));
}

// ---------------------------------------------------------------- bisect micro-harnesses
#[cfg_attr(kani, kani::proof)]
#[cfg_attr(kani, kani::unwind(6))]
fn m_map_only() {
    let mut m: HashMap<u32, u32, IntHasher> = HashMap::with_hasher(IntHasher::default());
    let a: u32 = kani::any();
    let b: u32 = kani::any();
    kani::assume(a != b);
    m.insert(a, 1);
    m.insert(b, 2);
    assert!(m.remove(&a) == Some(1));
    assert!(m.get(&b) == Some(&2));
    assert!(m.len() == 1);
}

#[cfg_attr(kani, kani::proof)]
#[cfg_attr(kani, kani::stub(catch_unwind, call_through))]
#[cfg_attr(kani, kani::unwind(6))]
fn m_map_slot_bind() {
    let mut m: HashMap<u32, FlowSlot, IntHasher> = HashMap::with_hasher(IntHasher::default());
    let a: u32 = kani::any();
    let (tx, rx) = oneshot::channel::<bool>();
    m.insert(a, FlowSlot::BindRequested(tx));
    let r = m.remove(&a);
    assert!(matches!(r, Some(FlowSlot::BindRequested(_))));
    assert!(m.len() == 0);
    core::mem::forget((r, rx, m));
}

#[cfg_attr(kani, kani::proof)]
#[cfg_attr(kani, kani::stub(catch_unwind, call_through))]
#[cfg_attr(kani, kani::unwind(6))]
fn m_lock_insert_len() {
    let w = world(4, 2, false, 1);
    let a: u32 = kani::any();
    let (tx, rx) = oneshot::channel::<bool>();
    w.task.flows.write().insert(a, FlowSlot::BindRequested(tx));
    assert!(w.task.flows.read().len() == 1);
    core::mem::forget((rx, w));
}

#[cfg_attr(kani, kani::proof)]
#[cfg_attr(kani, kani::stub(catch_unwind, call_through))]
#[cfg_attr(kani, kani::unwind(6))]
fn m_close_flow_bind() {
    let mut w = world(4, 2, false, 1);
    let a: u32 = kani::any();
    let (tx, mut rx) = oneshot::channel::<bool>();
    w.task.flows.write().insert(a, FlowSlot::BindRequested(tx));
    w.task.close_flow(a, false);
    assert!(w.task.flows.read().len() == 0);
    let mut c = cx();
    assert!(matches!(Pin::new(&mut rx).poll(&mut c), Poll::Ready(Ok(false))));
    core::mem::forget((rx, w));
}

#[cfg_attr(kani, kani::proof)]
#[cfg_attr(kani, kani::stub(catch_unwind, call_through))]
#[cfg_attr(kani, kani::unwind(6))]
fn m_close_flow_absent() {
    let mut w = world(4, 2, false, 1);
    let a: u32 = kani::any();
    w.task.close_flow(a, false);
    assert!(w.task.flows.read().len() == 0);
    assert!(out_empty(&mut w.tx_msg_rx));
    core::mem::forget(w);
}

#[cfg_attr(kani, kani::proof)]
#[cfg_attr(kani, kani::stub(catch_unwind, call_through))]
#[cfg_attr(kani, kani::unwind(6))]
fn m1_remove_absent_locked() {
    let w = world(4, 2, false, 1);
    let a: u32 = kani::any();
    let v = w.task.flows.write().remove(&a);
    assert!(v.is_none());
    core::mem::forget((v, w));
}
#[cfg_attr(kani, kani::proof)]
#[cfg_attr(kani, kani::stub(catch_unwind, call_through))]
#[cfg_attr(kani, kani::unwind(6))]
fn m2_remove_absent_local() {
    let mut m: HashMap<u32, FlowSlot, IntHasher> = HashMap::with_hasher(IntHasher::default());
    let a: u32 = kani::any();
    let v = m.remove(&a);
    assert!(v.is_none());
    core::mem::forget((v, m));
}
#[cfg_attr(kani, kani::proof)]
#[cfg_attr(kani, kani::stub(catch_unwind, call_through))]
#[cfg_attr(kani, kani::unwind(6))]
fn m3_contains_absent_locked() {
    let w = world(4, 2, false, 1);
    let a: u32 = kani::any();
    assert!(!w.task.flows.read().contains_key(&a));
    core::mem::forget(w);
}
#[cfg_attr(kani, kani::proof)]
#[cfg_attr(kani, kani::stub(catch_unwind, call_through))]
#[cfg_attr(kani, kani::unwind(6))]
fn m4_close_flow_local_only_none() {
    let mut w = world(4, 2, false, 1);
    let a: u32 = kani::any();
    let v: Option<FlowSlot> = None;
    if let Some(removed) = v {
        w.task.close_flow_local(removed, a, false);
    }
    assert!(out_empty(&mut w.tx_msg_rx));
    core::mem::forget(w);
}

#[cfg_attr(kani, kani::proof)]
#[cfg_attr(kani, kani::stub(catch_unwind, call_through))]
#[cfg_attr(kani, kani::unwind(6))]
fn m5_remove_then_local() {
    let mut w = world(4, 2, false, 1);
    let a: u32 = kani::any();
    let v = w.task.flows.write().remove(&a);
    if let Some(removed) = v {
        w.task.close_flow_local(removed, a, false);
    }
    assert!(out_empty(&mut w.tx_msg_rx));
    core::mem::forget(w);
}

#[cfg_attr(kani, kani::proof)]
#[cfg_attr(kani, kani::stub(catch_unwind, call_through))]
#[cfg_attr(kani, kani::unwind(6))]
fn v1_arc_lock_map() {
    let mut w = world(4, 2, false, 1);
    let m: Arc<RwLock<HashMap<u32, FlowSlot, IntHasher>>> = Arc::new(RwLock::new(HashMap::with_hasher(IntHasher::default())));
    let a: u32 = kani::any();
    let v = m.write().remove(&a);
    if let Some(removed) = v {
        w.task.close_flow_local(removed, a, false);
    }
    assert!(out_empty(&mut w.tx_msg_rx));
    core::mem::forget((w, m));
}
#[cfg_attr(kani, kani::proof)]
#[cfg_attr(kani, kani::stub(catch_unwind, call_through))]
#[cfg_attr(kani, kani::unwind(6))]
fn v2_lock_map() {
    let mut w = world(4, 2, false, 1);
    let m: RwLock<HashMap<u32, FlowSlot, IntHasher>> = RwLock::new(HashMap::with_hasher(IntHasher::default()));
    let a: u32 = kani::any();
    let v = m.write().remove(&a);
    if let Some(removed) = v {
        w.task.close_flow_local(removed, a, false);
    }
    assert!(out_empty(&mut w.tx_msg_rx));
    core::mem::forget((w, m));
}
#[cfg_attr(kani, kani::proof)]
#[cfg_attr(kani, kani::stub(catch_unwind, call_through))]
#[cfg_attr(kani, kani::unwind(6))]
fn v3_local_map() {
    let mut w = world(4, 2, false, 1);
    let mut m: HashMap<u32, FlowSlot, IntHasher> = HashMap::with_hasher(IntHasher::default());
    let a: u32 = kani::any();
    let v = m.remove(&a);
    if let Some(removed) = v {
        w.task.close_flow_local(removed, a, false);
    }
    assert!(out_empty(&mut w.tx_msg_rx));
    core::mem::forget((w, m));
}

#[cfg_attr(kani, kani::proof)]
#[cfg_attr(kani, kani::stub(catch_unwind, call_through))]
#[cfg_attr(kani, kani::unwind(6))]
fn y_close_flow_frame_concrete() {
    let mut w = world(4, 2, false, 1);
    let a: u32 = 5;
    let b: u32 = 9;
    let inhibit: bool = kani::any();
    let (sa, da) = w.task.new_stream_shared(a, 5, Bytes::new(), 0);
    let (sb, db) = w.task.new_stream_shared(b, 6, Bytes::new(), 0);
    w.task.flows.write().insert(a, FlowSlot::Established(da));
    w.task.flows.write().insert(b, FlowSlot::Established(db));
    w.task.close_flow(a, inhibit);
    {
        let g = w.task.flows.read();
        assert!(!g.contains_key(&a), "C06.close.removed: the aborted flow's slot is gone");
        assert!(g.len() == 1, "C06.close.frame.count: no other slot is removed");
        match g.get(&b) {
            Some(FlowSlot::Established(d)) => {
                assert!(d.sender.is_some() && !d.finish_sent.load(Ordering::Relaxed) && d.psh_send_remaining.load(Ordering::Relaxed) == 6,
                    "C06.close.frame: the other flow is left untouched");
            }
            _ => assert!(false, "C06.close.frame.present"),
        }
    }
    let (seen, _) = next_out(&mut w.tx_msg_rx);
    if inhibit {
        assert!(seen == NOTHING, "C10.reset.no_reply");
    } else {
        assert!(seen.op == 2 && seen.id == a, "C06.close.reset");
    }
    assert!(out_empty(&mut w.tx_msg_rx), "C06.close.single");
    assert!(sa.finish_sent.load(Ordering::Relaxed) && !sb.finish_sent.load(Ordering::Relaxed), "C06.close.writes");
    core::mem::forget((sa, sb, w));
}

#[cfg_attr(kani, kani::proof)]
#[cfg_attr(kani, kani::stub(catch_unwind, call_through))]
#[cfg_attr(kani, kani::unwind(6))]
fn y_pf_finish_unknown_concrete() {
    let mut w = world(4, 2, false, 1);
    let id: u32 = 5;
    let r = poll_once(w.task.process_frame(Frame::new_finish(id), false));
    assert!(matches!(r, Poll::Ready(Ok(()))), "C10.finish.unknown.ok: an unknown flow is not a connection error");
    core::mem::forget(r);
    let (seen, _) = next_out(&mut w.tx_msg_rx);
    assert!(seen.op == 2 && seen.id == id && seen.len == 5, "C10.finish.unknown.reset: Finish on an unknown flow is answered with Reset of that flow");
    assert!(out_empty(&mut w.tx_msg_rx), "C10.finish.unknown.single");
    assert!(w.task.flows.read().len() == 0, "C10.finish.unknown.table: the table is untouched");
    core::mem::forget(w);
}

#[cfg_attr(kani, kani::proof)]
#[cfg_attr(kani, kani::stub(catch_unwind, call_through))]
#[cfg_attr(kani, kani::unwind(6))]
fn e1_process_message_ping() {
    let mut w = world(4, 2, false, 1);
    let r = poll_once(w.task.process_message(Message::Ping, false));
    assert!(matches!(r, Poll::Ready(Ok(false))));
    core::mem::forget(r);
    assert!(out_empty(&mut w.tx_msg_rx));
    core::mem::forget(w);
}

#[cfg(kani)]
fn stub_new_stream_shared<S: WebSocket, T: TimestampProvider>(
    _t: &Task<S, T>,
    _flow_id: u32,
    _peer_rwnd: u32,
    _dest_host: Bytes,
    _dest_port: u16,
) -> (MuxStream, EstablishedStreamData) {
    panic!("WIRING: new_stream_shared must not be reached from this frame");
}
#[cfg(kani)]
fn stub_close_flow<S: WebSocket, T: TimestampProvider>(_t: &Task<S, T>, _flow_id: u32, _inhibit_rst: bool) {
    panic!("WIRING: close_flow must not be reached from this frame");
}

#[cfg(kani)]
#[cfg_attr(kani, kani::proof)]
#[cfg_attr(kani, kani::stub(catch_unwind, call_through))]
#[cfg_attr(kani, kani::stub(Task::new_stream_shared, stub_new_stream_shared))]
#[cfg_attr(kani, kani::stub(Task::close_flow, stub_close_flow))]
#[cfg_attr(kani, kani::unwind(6))]
fn e2_pf_finish_unknown_stubbed() {
    let mut w = world(4, 2, false, 1);
    let id: u32 = 5;
    let r = poll_once(w.task.process_frame(Frame::new_finish(id), false));
    assert!(matches!(r, Poll::Ready(Ok(()))), "C10.finish.unknown.ok: an unknown flow is not a connection error");
    core::mem::forget(r);
    let (seen, _) = next_out(&mut w.tx_msg_rx);
    assert!(seen.op == 2 && seen.id == id && seen.len == 5, "C10.finish.unknown.reset: Finish on an unknown flow is answered with Reset of that flow");
    assert!(out_empty(&mut w.tx_msg_rx), "C10.finish.unknown.single");
    assert!(w.task.flows.read().len() == 0, "C10.finish.unknown.table: the table is untouched");
    core::mem::forget(w);
}
