//! Kani harnesses (= contracts) for the frame codec, injected as a child module of
//! `penguin_mux::frame` in the scratch copy.  C09 / C11 (codec clause) / C10 (invalid bytes => Err).
//! The reference functions below are written from PROTOCOL.md ("Data Framing") with `/` and `%`
//! only; they share no code with frame.rs.
#![allow(dead_code, unused_imports)]
use super::*;
use alloc::vec::Vec;
#[cfg(verif_replay)]
use crate::verif_replay_kani as kani;

fn ref_valid(s: &[u8]) -> bool {
    if s.len() < 5 {
        return false;
    }
    let ver = s[0] / 16;
    let op = s[0] % 16;
    if ver != 7 && ver != 0 {
        return false;
    }
    match op {
        0 => s.len() >= 5 + 4 + 2,
        1 => s.len() >= 5 + 4,
        2 | 3 | 4 => true,
        5 => s.len() >= 5 + 1 + 2 && (s[5] == 1 || s[5] == 3),
        6 => s.len() >= 5 + 1 + 2 && s.len() >= 5 + 1 + 2 + s[5] as usize,
        _ => false,
    }
}

fn be16(s: &[u8], i: usize) -> u16 {
    (s[i] as u16) * 256 + s[i + 1] as u16
}

fn be32(s: &[u8], i: usize) -> u32 {
    (s[i] as u32) * 16_777_216 + (s[i + 1] as u32) * 65_536 + (s[i + 2] as u32) * 256 + s[i + 3] as u32
}

fn eq_bytes(a: &[u8], b: &[u8]) -> bool {
    if a.len() != b.len() {
        return false;
    }
    let mut i = 0;
    while i < a.len() {
        if a[i] != b[i] {
            return false;
        }
        i += 1;
    }
    true
}

/// the decoded frame carries exactly the field values the layout prescribes
fn decoded_matches(s: &[u8], f: &Frame<'_>) -> bool {
    let n = s.len();
    if f.id != be32(s, 1) {
        return false;
    }
    match (&f.payload, s[0] % 16) {
        (Payload::Connect(c), 0) => {
            c.rwnd == be32(s, 5) && c.target_port == be16(s, 9) && eq_bytes(c.target_host.as_ref(), &s[11..n])
        }
        (Payload::Acknowledge(a), 1) => *a == be32(s, 5),
        (Payload::Reset, 2) => true,
        (Payload::Finish, 3) => true,
        (Payload::Push(PushPayload::Single(d)), 4) => eq_bytes(d.as_ref(), &s[5..n]),
        (Payload::Bind(b), 5) => {
            (b.bind_type as u8) == s[5] && b.target_port == be16(s, 6) && eq_bytes(b.target_host.as_ref(), &s[8..n])
        }
        (Payload::Datagram(d), 6) => {
            let hl = s[5] as usize;
            d.target_port == be16(s, 6)
                && eq_bytes(d.target_host.as_ref(), &s[8..8 + hl])
                && eq_bytes(d.data.as_ref(), &s[8 + hl..n])
        }
        _ => false,
    }
}

fn decode_contract<const N: usize>() {
    let buf: [u8; N] = kani::any();
    let n: usize = kani::any();
    kani::assume(n <= N);
    let s = &buf[..n];
    let r = Frame::try_from(s);
    let v = ref_valid(s);
    kani::cover!(v && s[0] % 16 == 6, "valid datagram reachable");
    kani::cover!(!v && n >= 5, "invalid long input reachable");
    // C09: succeeds exactly on the valid strings (total: no panic on any input)
    assert!(r.is_ok() == v, "C09.dec.total: decoder accepts exactly the valid byte strings");
    if let Ok(f) = &r {
        assert!(decoded_matches(s, f), "C09.dec.exact: decoded fields equal the layout's values");
    }
    core::mem::forget(r);
}

#[cfg_attr(kani, kani::proof)]
#[cfg_attr(kani, kani::unwind(14))]
#[cfg_attr(verif_replay, test)]
fn c09_decode_matches_spec_n12() {
    decode_contract::<12>();
}

#[cfg_attr(kani, kani::proof)]
#[cfg_attr(kani, kani::unwind(26))]
#[cfg_attr(verif_replay, test)]
fn c09_decode_matches_spec_n24() {
    decode_contract::<24>();
}

/// Datagram clause of C11 alone, small payloads 0..3 bytes, host 0..2: decoder accepts and is exact
#[cfg_attr(kani, kani::proof)]
#[cfg_attr(kani, kani::unwind(8))]
#[cfg_attr(verif_replay, test)]
fn c11_datagram_small_payload_accepted() {
    let mut buf: [u8; 13] = kani::any();
    buf[0] = 0x76;
    let hl: u8 = kani::any();
    let dl: usize = kani::any();
    kani::assume(hl <= 2 && dl <= 3);
    buf[5] = hl;
    let n = 8 + hl as usize + dl;
    let s = &buf[..n];
    let r = Frame::try_from(s);
    kani::cover!(dl == 0 && hl == 2);
    assert!(r.is_ok(), "C11.dgram.accept: every well-formed datagram (payload 0..3 bytes) decodes");
    if let Ok(f) = &r {
        assert!(decoded_matches(s, f), "C11.dgram.exact");
    }
    core::mem::forget(r);
}

// ------------------------------------------------------------------ encoder
fn put32(out: &mut [u8], i: usize, x: u32) {
    out[i] = (x / 16_777_216) as u8;
    out[i + 1] = ((x / 65_536) % 256) as u8;
    out[i + 2] = ((x / 256) % 256) as u8;
    out[i + 3] = (x % 256) as u8;
}

fn put16(out: &mut [u8], i: usize, x: u16) {
    out[i] = (x / 256) as u8;
    out[i + 1] = (x % 256) as u8;
}

fn encoded_equals(got: &[u8], want: &[u8]) -> bool {
    eq_bytes(got, want)
}

/// W = which constructor, H = host length, D = data length: all concrete per instantiation so
/// that no allocation has a symbolic size; ids, ports, windows and all contents are symbolic.
fn encode_contract<const W: u8, const H: usize, const D: usize>() {
    let id: u32 = kani::any();
    let rwnd: u32 = kani::any();
    let port: u16 = kani::any();
    let host: [u8; H] = kani::any();
    let data: [u8; D] = kani::any();
    let mut want = [0u8; 24];
    put32(&mut want, 1, id);
    let (frame, len) = match W {
        0 => {
            want[0] = 0x70;
            put32(&mut want, 5, rwnd);
            put16(&mut want, 9, port);
            want[11..11 + H].copy_from_slice(&host);
            (Frame::new_connect(&host, port, id, rwnd), 11 + H)
        }
        1 => {
            want[0] = 0x71;
            put32(&mut want, 5, rwnd);
            (Frame::new_acknowledge(id, rwnd), 9)
        }
        2 => {
            want[0] = 0x72;
            (Frame::new_reset(id), 5)
        }
        3 => {
            want[0] = 0x73;
            (Frame::new_finish(id), 5)
        }
        4 => {
            want[0] = 0x74;
            want[5..5 + D].copy_from_slice(&data);
            (Frame::new_push(id, &data), 5 + D)
        }
        5 => {
            // vectored push of [host, data] == single push of host ++ data
            want[0] = 0x74;
            want[5..5 + H].copy_from_slice(&host);
            want[5 + H..5 + H + D].copy_from_slice(&data);
            let v = alloc::vec![cow_bytes::CowBytes::Temporary(&host[..]), cow_bytes::CowBytes::Temporary(&data[..])];
            (Frame::new_push_vectored(id, v), 5 + H + D)
        }
        6 | 7 => {
            let bt = if W == 6 { BindType::Stream } else { BindType::Datagram };
            want[0] = 0x75;
            want[5] = if W == 6 { 1 } else { 3 };
            put16(&mut want, 6, port);
            want[8..8 + H].copy_from_slice(&host);
            (Frame::new_bind(id, bt, &host, port), 8 + H)
        }
        _ => {
            want[0] = 0x76;
            want[5] = H as u8;
            put16(&mut want, 6, port);
            want[8..8 + H].copy_from_slice(&host);
            want[8 + H..8 + H + D].copy_from_slice(&data);
            (Frame::new_datagram(id, &host, port, &data), 8 + H + D)
        }
    };
    let got = Vec::from(&frame);
    assert!(got.len() == len, "C09.enc.len: encoded length is 5 + payload length");
    assert!(encoded_equals(&got, &want[..len]), "C09.enc.exact: bytes equal the PROTOCOL.md layout");
    // round trip (borrowed decode). Decoding reads `want`, which was just shown to be byte-equal
    // to the encoder's output: decoding the heap Vec itself costs CBMC 10x more for the same fact.
    let back = Frame::try_from(&want[..len]);
    assert!(back.is_ok(), "C09.roundtrip.ok: encode then decode succeeds");
    if let Ok(b) = &back {
        assert!(decoded_matches(&want[..len], b), "C09.roundtrip.fields: decode(encode(f)) has f's field values");
        if W != 4 && W != 5 {
            // `PartialEq for PushPayload` allocates (`concat`) in arms CBMC cannot rule out cheaply;
            // Push frames are compared field-wise above, the other variants also with `==`.
            assert!(*b == frame, "C09.roundtrip.eq: decode(encode(f)) == f");
        }
    }
    core::mem::forget(back);
    core::mem::forget(got);
    core::mem::forget(frame);
}

macro_rules! enc_harness {
    ($name:ident, $w:expr, $h:expr, $d:expr) => {
        #[cfg_attr(kani, kani::proof)]
        #[cfg_attr(kani, kani::unwind(26))]
        #[cfg_attr(verif_replay, test)]
        fn $name() {
            encode_contract::<$w, $h, $d>();
        }
    };
}
enc_harness!(c09_encode_connect_h0, 0, 0, 0);
enc_harness!(c09_encode_connect_h3, 0, 3, 0);
enc_harness!(c09_encode_acknowledge, 1, 0, 0);
enc_harness!(c09_encode_reset, 2, 0, 0);
enc_harness!(c09_encode_finish, 3, 0, 0);
enc_harness!(c09_encode_push_d0, 4, 0, 0);
enc_harness!(c09_encode_push_d3, 4, 0, 3);
enc_harness!(c09_encode_push_vectored_h2_d3, 5, 2, 3);
enc_harness!(c09_encode_push_vectored_h0_d1, 5, 0, 1);
enc_harness!(c09_encode_bind_stream_h2, 6, 2, 0);
enc_harness!(c09_encode_bind_datagram_h0, 7, 0, 0);
enc_harness!(c09_encode_datagram_h0_d0, 8, 0, 0);
enc_harness!(c09_encode_datagram_h2_d0, 8, 2, 0);
enc_harness!(c09_encode_datagram_h2_d3, 8, 2, 3);
enc_harness!(c09_encode_datagram_h0_d4, 8, 0, 4);

/// `append_push_data`: appends iff the frame is a Push (otherwise the documented panic)
#[cfg_attr(kani, kani::proof)]
#[cfg_attr(kani, kani::unwind(12))]
#[cfg_attr(verif_replay, test)]
fn c09_append_push_data() {
    let id: u32 = kani::any();
    let a: [u8; 2] = kani::any();
    let b: [u8; 3] = kani::any();
    let mut v = Vec::from(Frame::new_push(id, &a));
    append_push_data(&mut v, &b);
    let mut ab = [0u8; 5];
    ab[..2].copy_from_slice(&a);
    ab[2..].copy_from_slice(&b);
    let want = Vec::from(Frame::new_push(id, &ab));
    assert!(eq_bytes(&v, &want), "C09.append: append_push_data(enc(Push a), b) == enc(Push a++b)");
    core::mem::forget(v);
    core::mem::forget(want);
}

/// cross-check of the contract Verus assumes for `PushPayload::len` (iterator adapter chain)
#[cfg_attr(kani, kani::proof)]
#[cfg_attr(kani, kani::unwind(6))]
#[cfg_attr(verif_replay, test)]
fn c09_push_payload_len() {
    let a: [u8; 2] = kani::any();
    let b: [u8; 0] = kani::any();
    let c: [u8; 3] = kani::any();
    let p = PushPayload::Vectored(alloc::vec![
        cow_bytes::CowBytes::Temporary(&a[..]),
        cow_bytes::CowBytes::Temporary(&b[..]),
        cow_bytes::CowBytes::Temporary(&c[..])
    ]);
    assert!(p.len() == 5, "C09.pushlen: vectored length is the sum of the parts");
    let q = PushPayload::Single(cow_bytes::CowBytes::Temporary(&c[..]));
    assert!(q.len() == 3);
    core::mem::forget(p);
}

