//! Kani harnesses (= contracts) for `timing.rs` / `config.rs`, child module of `penguin_mux::timing`.
//! C19 (back-off generator) and C16 (keepalive clamp, None = infinity order). All loop-free over
//! the full domain of `Duration` (secs: u64, nanos < 10^9): complete, not bounded.
#![allow(dead_code, unused_imports)]
use super::*;
use core::cmp::Ordering;
#[cfg(verif_replay)]
use crate::verif_replay_kani as kani;

fn any_duration() -> Duration {
    let secs: u64 = kani::any();
    let nanos: u32 = kani::any();
    kani::assume(nanos < 1_000_000_000);
    Duration::new(secs, nanos)
}

/// lexicographic comparison on (secs, nanos): no wide multiplication for the SAT solver
fn le(a: Duration, b: Duration) -> bool {
    a.as_secs() < b.as_secs() || (a.as_secs() == b.as_secs() && a.subsec_nanos() <= b.subsec_nanos())
}
fn lt(a: Duration, b: Duration) -> bool {
    le(a, b) && !(a.as_secs() == b.as_secs() && a.subsec_nanos() == b.subsec_nanos())
}

/// bounded domain for the arithmetic harness (64x32-bit multiply/divide is what costs CBMC)
const SECS_BOUND: u64 = 1 << 8;
const MULT_BOUND: u32 = 4;
fn small_duration() -> Duration {
    let secs: u64 = kani::any();
    let nanos: u32 = kani::any();
    kani::assume(secs < SECS_BOUND && nanos < 1_000_000_000);
    Duration::new(secs, nanos)
}
fn ns64(d: Duration) -> u64 {
    d.as_secs() * 1_000_000_000 + d.subsec_nanos() as u64
}

fn any_opt() -> OptionalDuration {
    if kani::any() { OptionalDuration(Some(any_duration())) } else { OptionalDuration(None) }
}

/// C19 step contract of `Backoff::advance` (same clauses as the Verus unit `backoff`, which is
/// unbounded); here durations < 2^8 s and mult < 4 so that no overflow precondition is needed
#[cfg_attr(kani, kani::proof)]
#[cfg_attr(verif_replay, test)]
fn c19_backoff_advance() {
    let mult: u32 = kani::any();
    kani::assume(mult < MULT_BOUND);
    let mut b = Backoff {
        initial: small_duration(),
        max: small_duration(),
        mult,
        max_count: kani::any(),
        current: small_duration(),
        count: kani::any(),
    };
    let pre = b;
    let m = if ns64(pre.current) <= ns64(pre.max) { ns64(pre.current) } else { ns64(pre.max) };
    kani::assume(pre.count < u32::MAX);
    let r = b.advance();
    let stop = pre.max_count != 0 && pre.count >= pre.max_count;
    kani::cover!(stop);
    kani::cover!(!stop && ns64(pre.current) > ns64(pre.max));
    assert!(r.is_none() == stop, "C19.advance.none: gives up exactly when max_count != 0 and count >= max_count");
    match r {
        None => {
            assert!(b.count == pre.count && b.current == pre.current, "C19.advance.none_unchanged: state unchanged when giving up");
        }
        Some(d) => {
            assert!(ns64(d) == m, "C19.advance.value: returns min(current, max)");
            assert!(b.count == pre.count + 1, "C19.advance.count: count incremented");
            assert!(ns64(b.current) == m * pre.mult as u64, "C19.advance.next: next current = returned * mult");
        }
    }
    assert!(b.initial == pre.initial && b.max == pre.max && b.mult == pre.mult && b.max_count == pre.max_count,
        "C19.advance.frame: parameters unchanged");
}

#[cfg_attr(kani, kani::proof)]
#[cfg_attr(verif_replay, test)]
fn c19_backoff_new_reset() {
    let (i, m, mu, mc) = (any_duration(), any_duration(), kani::any(), kani::any());
    let b = Backoff::new(i, m, mu, mc);
    assert!(b.current == i && b.count == 0 && b.initial == i && b.max == m && b.mult == mu && b.max_count == mc,
        "C19.new: starts at the initial delay with count 0");
    let mut c = Backoff { initial: i, max: m, mult: mu, max_count: mc, current: any_duration(), count: kani::any() };
    c.reset();
    assert!(c.current == i && c.count == 0 && c.initial == i && c.max == m && c.mult == mu && c.max_count == mc,
        "C19.reset: restarts from the initial delay with count 0");
}

// ------------------------------------------------------------------ C16
fn opt_le(a: Option<Duration>, b: Option<Duration>) -> bool {
    // None = infinity
    match (a, b) {
        (_, None) => true,
        (None, Some(_)) => false,
        (Some(x), Some(y)) => le(x, y),
    }
}

/// `Options::keepalive_timeout` stores max(T_in, I) in the order where None is infinite
#[cfg_attr(kani, kani::proof)]
#[cfg_attr(verif_replay, test)]
fn c16_timeout_clamped_to_interval() {
    let i = any_opt();
    let t = any_opt();
    let o = crate::config::Options::new().keepalive_interval(i).keepalive_timeout(t);
    let stored = o.keepalive_timeout.0;
    kani::cover!(t.0.is_some() && i.0.is_some() && lt(t.0.unwrap(), i.0.unwrap()));
    assert!(o.keepalive_interval.0 == i.0, "C16.interval.stored: interval stored unchanged");
    assert!(opt_le(i.0, stored) && opt_le(t.0, stored), "C16.clamp.upper: stored timeout >= both the requested timeout and the interval");
    assert!(stored == t.0 || stored == i.0, "C16.clamp.is_max: stored timeout is one of the two");
}

/// `cmp_duration`: the ping loop times out iff T is finite and elapsed > T
#[cfg_attr(kani, kani::proof)]
#[cfg_attr(verif_replay, test)]
fn c16_cmp_duration_table() {
    let t = any_opt();
    let e = any_duration();
    let r = t.cmp_duration(&e);
    let want = match t.0 {
        None => Ordering::Greater,
        Some(x) => {
            if lt(x, e) { Ordering::Less } else if x == e { Ordering::Equal } else { Ordering::Greater }
        }
    };
    kani::cover!(r == Ordering::Less);
    assert!(r == want, "C16.cmp_duration: None is greater than every duration, finite values compare numerically");
    assert!((r == Ordering::Less) == (t.0.is_some() && lt(t.0.unwrap(), e)), "C16.timeout_decision: Less iff T finite and elapsed > T");
}

#[cfg_attr(kani, kani::proof)]
#[cfg_attr(verif_replay, test)]
fn c16_optional_duration_order_and_from() {
    let a = any_opt();
    let b = any_opt();
    let r = a.cmp(&b);
    assert!((r != Ordering::Greater) == opt_le(a.0, b.0), "C16.ord: total order with None as the largest element");
    assert!((r == Ordering::Equal) == (a.0 == b.0), "C16.ord.eq");
    let d = any_duration();
    let f = OptionalDuration::from(d);
    let zero = d.as_secs() == 0 && d.subsec_nanos() == 0;
    assert!(f.0 == if zero { None } else { Some(d) }, "C16.from: a zero duration means disabled (None)");
    assert!(f.is_none() == zero && f.is_some() == !zero, "C16.is_some");
}
