//! `#[tracing::instrument(..)]` with logging compiled out: the item is returned unchanged.
extern crate proc_macro;
use proc_macro::TokenStream;

#[proc_macro_attribute]
pub fn instrument(_args: TokenStream, item: TokenStream) -> TokenStream {
    item
}
