//! `tracing` with logging compiled out (see Cargo.toml).
#![no_std]
pub use tracing_attributes::instrument;

#[macro_export]
macro_rules! trace { ($($t:tt)*) => { () }; }
#[macro_export]
macro_rules! debug { ($($t:tt)*) => { () }; }
#[macro_export]
macro_rules! info { ($($t:tt)*) => { () }; }
#[macro_export]
macro_rules! warn { ($($t:tt)*) => { () }; }
#[macro_export]
macro_rules! error { ($($t:tt)*) => { () }; }
#[macro_export]
macro_rules! event { ($($t:tt)*) => { () }; }

#[derive(Clone, Copy, Debug, PartialEq, Eq, PartialOrd, Ord)]
pub struct Level(u8);
impl Level {
    pub const ERROR: Level = Level(1);
    pub const WARN: Level = Level(2);
    pub const INFO: Level = Level(3);
    pub const DEBUG: Level = Level(4);
    pub const TRACE: Level = Level(5);
}
