//! Sequential model of `hashbrown::HashMap` = a finite map with at most `CAP` entries, stored in a
//! fixed array with linear search.
//!
//! * the hasher `S` is carried but never used: the contract of a hash map does not depend on it
//!   (`K: Eq + Hash` is still demanded so that the code under test type-checks as with hashbrown);
//! * slots carry an explicit one-byte tag (`#[repr(u8)] enum Slot`): neither a niche-encoded
//!   `Option` tag nor a `MaybeUninit` union, both of which defeat CBMC's constant folding once the
//!   map sits in a heap object (measured); no `unsafe` in this crate;
//! * inserting entry CAP+1 is a model-capacity panic (`MODEL-CAP`), harnesses stay below it and
//!   say so;
//! * iteration (`values`, `drain`, `iter`, `keys`) is in slot order; the real crate's order is
//!   unspecified, so no contract may depend on it.
#![no_std]
#![forbid(unsafe_code)]
#![allow(clippy::all)]
#![allow(dead_code)]

use core::borrow::Borrow;
use core::fmt;
use core::hash::{BuildHasher, Hash};

pub const CAP: usize = 4;

/// stands for `hashbrown::DefaultHashBuilder` (foldhash); never used for hashing by the model
#[derive(Clone, Copy, Default, Debug)]
pub struct DefaultHashBuilder;
pub struct NeverHasher(u64);
impl core::hash::Hasher for NeverHasher {
    fn finish(&self) -> u64 {
        self.0
    }
    fn write(&mut self, bytes: &[u8]) {
        let mut i = 0;
        while i < bytes.len() {
            self.0 = self.0.wrapping_mul(31).wrapping_add(bytes[i] as u64);
            i += 1;
        }
    }
}
impl BuildHasher for DefaultHashBuilder {
    type Hasher = NeverHasher;
    fn build_hasher(&self) -> NeverHasher {
        NeverHasher(0)
    }
}

pub mod hash_map {
    pub use super::{Drain, HashMap, Iter, Keys, Values};
}

#[repr(u8)]
enum Slot<K, V> {
    Empty = 0,
    Full(K, V) = 1,
}

pub struct HashMap<K, V, S = DefaultHashBuilder> {
    slots: [Slot<K, V>; CAP],
    n: usize,
    hasher: S,
}

impl<K, V, S> HashMap<K, V, S> {
    pub const fn with_hasher(hasher: S) -> Self {
        HashMap { slots: [const { Slot::Empty }; CAP], n: 0, hasher }
    }
    pub fn with_capacity_and_hasher(_capacity: usize, hasher: S) -> Self {
        Self::with_hasher(hasher)
    }
    pub fn hasher(&self) -> &S {
        &self.hasher
    }
    pub fn len(&self) -> usize {
        self.n
    }
    pub fn is_empty(&self) -> bool {
        self.n == 0
    }
    pub fn capacity(&self) -> usize {
        CAP
    }
    pub fn clear(&mut self) {
        let mut i = 0;
        while i < CAP {
            self.slots[i] = Slot::Empty;
            i += 1;
        }
        self.n = 0;
    }
    pub fn values(&self) -> Values<'_, K, V> {
        Values { slots: &self.slots, i: 0 }
    }
    pub fn keys(&self) -> Keys<'_, K, V> {
        Keys { slots: &self.slots, i: 0 }
    }
    pub fn iter(&self) -> Iter<'_, K, V> {
        Iter { slots: &self.slots, i: 0 }
    }
    pub fn drain(&mut self) -> Drain<'_, K, V> {
        self.n = 0;
        Drain { slots: &mut self.slots, i: 0 }
    }
}

impl<K, V, S: Default> HashMap<K, V, S> {
    pub fn new() -> Self {
        Self::with_hasher(S::default())
    }
}

impl<K, V, S: Default> Default for HashMap<K, V, S> {
    fn default() -> Self {
        Self::with_hasher(S::default())
    }
}

impl<K: Eq + Hash, V, S: BuildHasher> HashMap<K, V, S> {
    fn find<Q: ?Sized + Eq>(&self, k: &Q) -> Option<usize>
    where
        K: Borrow<Q>,
    {
        let mut i = 0;
        while i < CAP {
            if let Slot::Full(key, _) = &self.slots[i] {
                if key.borrow() == k {
                    return Some(i);
                }
            }
            i += 1;
        }
        None
    }
    pub fn contains_key<Q: ?Sized + Hash + Eq>(&self, k: &Q) -> bool
    where
        K: Borrow<Q>,
    {
        self.find(k).is_some()
    }
    pub fn get<Q: ?Sized + Hash + Eq>(&self, k: &Q) -> Option<&V>
    where
        K: Borrow<Q>,
    {
        match self.find(k) {
            Some(i) => match &self.slots[i] {
                Slot::Full(_, v) => Some(v),
                Slot::Empty => None,
            },
            None => None,
        }
    }
    pub fn get_mut<Q: ?Sized + Hash + Eq>(&mut self, k: &Q) -> Option<&mut V>
    where
        K: Borrow<Q>,
    {
        match self.find(k) {
            Some(i) => match &mut self.slots[i] {
                Slot::Full(_, v) => Some(v),
                Slot::Empty => None,
            },
            None => None,
        }
    }
    pub fn insert(&mut self, k: K, v: V) -> Option<V> {
        if let Some(i) = self.find(&k) {
            if let Slot::Full(_, old) = &mut self.slots[i] {
                return Some(core::mem::replace(old, v));
            }
        }
        let mut i = 0;
        while i < CAP {
            if let Slot::Empty = &self.slots[i] {
                self.slots[i] = Slot::Full(k, v);
                self.n += 1;
                return None;
            }
            i += 1;
        }
        panic!("MODEL-CAP: the hashbrown model holds at most CAP entries");
    }
    pub fn remove<Q: ?Sized + Hash + Eq>(&mut self, k: &Q) -> Option<V>
    where
        K: Borrow<Q>,
    {
        match self.remove_entry(k) {
            Some((_, v)) => Some(v),
            None => None,
        }
    }
    pub fn remove_entry<Q: ?Sized + Hash + Eq>(&mut self, k: &Q) -> Option<(K, V)>
    where
        K: Borrow<Q>,
    {
        match self.find(k) {
            Some(i) => match core::mem::replace(&mut self.slots[i], Slot::Empty) {
                Slot::Full(key, v) => {
                    self.n -= 1;
                    Some((key, v))
                }
                Slot::Empty => None,
            },
            None => None,
        }
    }
}

impl<K: fmt::Debug, V: fmt::Debug, S> fmt::Debug for HashMap<K, V, S> {
    fn fmt(&self, f: &mut fmt::Formatter<'_>) -> fmt::Result {
        f.write_str("HashMap(model)")
    }
}

macro_rules! iter_struct {
    ($name:ident, $item:ty, $k:ident, $v:ident, $proj:expr) => {
        pub struct $name<'a, K, V> {
            slots: &'a [Slot<K, V>; CAP],
            i: usize,
        }
        impl<'a, K, V> Iterator for $name<'a, K, V> {
            type Item = $item;
            fn next(&mut self) -> Option<Self::Item> {
                while self.i < CAP {
                    let i = self.i;
                    self.i += 1;
                    if let Slot::Full($k, $v) = &self.slots[i] {
                        return Some($proj);
                    }
                }
                None
            }
        }
    };
}
iter_struct!(Values, &'a V, _k, v, v);
iter_struct!(Keys, &'a K, k, _v, k);
iter_struct!(Iter, (&'a K, &'a V), k, v, (k, v));

pub struct Drain<'a, K, V> {
    slots: &'a mut [Slot<K, V>; CAP],
    i: usize,
}
impl<'a, K, V> Iterator for Drain<'a, K, V> {
    type Item = (K, V);
    fn next(&mut self) -> Option<(K, V)> {
        while self.i < CAP {
            let i = self.i;
            self.i += 1;
            if let Slot::Full(k, v) = core::mem::replace(&mut self.slots[i], Slot::Empty) {
                return Some((k, v));
            }
        }
        None
    }
}
impl<'a, K, V> Drop for Drain<'a, K, V> {
    fn drop(&mut self) {
        // like hashbrown: entries not yielded are dropped
        while self.next().is_some() {}
    }
}
