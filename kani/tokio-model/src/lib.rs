//! Sequential model of `tokio::sync::{mpsc, oneshot}` and the `tokio::io` traits.
//!
//! * one fixed ring buffer per channel (QCAP slots), state behind a leaked `&'static` cell:
//!   no `Arc`, no `VecDeque`, no locks, nothing is ever freed;
//! * single-threaded: wakers are never stored (a `Pending` result simply returns);
//! * channel semantics follow the tokio documentation: FIFO; `try_send` = `Closed` if the receiver
//!   is closed or dropped, else `Full` if `capacity` messages are queued; `recv` returns queued
//!   messages even after `close()`, then `None` once closed or all senders are gone.
#![allow(clippy::all)]
#![allow(dead_code)]

pub const QCAP: usize = 8;

pub mod sync {
    pub mod mpsc {
        use core::cell::UnsafeCell;
        use core::fmt;
        use core::task::{Context, Poll};

        pub mod error {
            use core::fmt;
            /// MODEL DEVIATION: the rejected message is wrapped in `ManuallyDrop`, i.e. it is leaked
            /// instead of dropped when the caller discards the error. Dropping a
            /// `Result<(), SendError<T>>` otherwise makes CBMC explore `T`'s drop glue on the `Ok`
            /// path too (niche-encoded tag; measured: > 10 GB). The code under test never reads
            /// the payload of a `SendError`.
            pub struct SendError<T>(pub core::mem::ManuallyDrop<T>);
            impl<T> fmt::Debug for SendError<T> {
                fn fmt(&self, f: &mut fmt::Formatter<'_>) -> fmt::Result {
                    f.write_str("SendError")
                }
            }
            impl<T> fmt::Display for SendError<T> {
                fn fmt(&self, f: &mut fmt::Formatter<'_>) -> fmt::Result {
                    f.write_str("channel closed")
                }
            }
            #[derive(PartialEq, Eq, Clone, Copy)]
            pub enum TrySendError<T> {
                Full(T),
                Closed(T),
            }
            impl<T> fmt::Debug for TrySendError<T> {
                fn fmt(&self, f: &mut fmt::Formatter<'_>) -> fmt::Result {
                    f.write_str("TrySendError")
                }
            }
            impl<T> fmt::Display for TrySendError<T> {
                fn fmt(&self, f: &mut fmt::Formatter<'_>) -> fmt::Result {
                    f.write_str("TrySendError")
                }
            }
            #[derive(PartialEq, Eq, Clone, Copy, Debug)]
            pub enum TryRecvError {
                Empty,
                Disconnected,
            }
        }
        use error::{SendError, TryRecvError, TrySendError};

        // Slots are `MaybeUninit` with the occupancy implied by (head, len): nothing in the model
        // depends on a niche-encoded `Option` tag and no drop glue of `T` is ever run by the model
        // (CBMC cannot fold niche tags and would explore the drop of garbage values).
        pub(crate) struct State<T> {
            // the payload slots live in their OWN leaked object: moving a value with symbolic fields
            // into the object that also holds head/len/flags makes CBMC stop folding those control
            // fields (measured by bisection on the bridge harnesses, DESIGN.md 9.6)
            buf: *mut [core::mem::MaybeUninit<T>; crate::QCAP],
            head: usize,
            len: usize,
            cap: usize,
            rx_closed: bool,
            rx_alive: bool,
            tx_count: usize,
        }

        pub(crate) struct Shared<T>(UnsafeCell<State<T>>);
        // the model is sequential; these only satisfy the `Send`/`Sync` bounds of the code under test
        unsafe impl<T> Send for Shared<T> {}
        unsafe impl<T> Sync for Shared<T> {}

        /// handle -> shared state.  A RAW pointer on purpose: `Option<Sender<T>>` then has an explicit
        /// tag instead of the null-pointer niche of a reference, which CBMC cannot fold once the value
        /// has been moved through a struct copy (measured: `if let Some(tx) = &self.bnd_request_tx`
        /// explored both arms for a `None`).
        pub(crate) struct Ptr<T: 'static>(*const Shared<T>);
        impl<T> Clone for Ptr<T> {
            fn clone(&self) -> Self {
                Ptr(self.0)
            }
        }
        impl<T> Copy for Ptr<T> {}
        unsafe impl<T> Send for Ptr<T> {}
        unsafe impl<T> Sync for Ptr<T> {}
        impl<T> core::ops::Deref for Ptr<T> {
            type Target = Shared<T>;
            fn deref(&self) -> &Shared<T> {
                // SAFETY: the state is leaked (never freed) by `channel()`
                unsafe { &*self.0 }
            }
        }

        impl<T> Shared<T> {
            fn new(cap: usize) -> &'static Self
            where
                T: 'static,
            {
                let s = Shared(UnsafeCell::new(State {
                    buf: Box::leak(Box::new([const { core::mem::MaybeUninit::<T>::uninit() }; crate::QCAP])) as *mut _,
                    head: 0,
                    len: 0,
                    cap,
                    rx_closed: false,
                    rx_alive: true,
                    tx_count: 1,
                }));
                Box::leak(Box::new(s))
            }
            #[allow(clippy::mut_from_ref)]
            fn st(&self) -> &mut State<T> {
                unsafe { &mut *self.0.get() }
            }
            fn push(&self, v: T) {
                let s = self.st();
                if s.len >= crate::QCAP {
                    panic!("tokio-model bound exceeded: more than QCAP queued messages");
                }
                let idx = (s.head + s.len) % crate::QCAP;
                unsafe { (*s.buf)[idx].write(v) };
                s.len += 1;
            }
            fn pop(&self) -> Option<T> {
                let s = self.st();
                if s.len == 0 {
                    return None;
                }
                let v = unsafe { (*s.buf)[s.head].assume_init_read() };
                s.head = (s.head + 1) % crate::QCAP;
                s.len -= 1;
                Some(v)
            }
            fn closed(&self) -> bool {
                let s = self.st();
                s.rx_closed || !s.rx_alive
            }
        }

        // ------------------------------------------------------------ bounded
        pub struct Sender<T: 'static>(Ptr<T>);
        pub struct Receiver<T: 'static>(Ptr<T>);

        pub fn channel<T: 'static>(buffer: usize) -> (Sender<T>, Receiver<T>) {
            assert!(buffer > 0, "mpsc bounded channel requires buffer > 0");
            let s = Ptr(Shared::new(buffer) as *const Shared<T>);
            (Sender(s), Receiver(s))
        }

        impl<T> Sender<T> {
            pub fn try_send(&self, message: T) -> Result<(), TrySendError<T>> {
                if self.0.closed() {
                    return Err(TrySendError::Closed(message));
                }
                if self.0.st().len >= self.0.st().cap {
                    return Err(TrySendError::Full(message));
                }
                self.0.push(message);
                Ok(())
            }
            pub fn send(&self, value: T) -> SendFut<'_, T> {
                SendFut { tx: self, value: core::mem::MaybeUninit::new(value), present: true }
            }
            pub fn strong_count(&self) -> usize {
                self.0.st().tx_count
            }
            pub fn is_closed(&self) -> bool {
                self.0.closed()
            }
        }
        pub struct SendFut<'a, T: 'static> {
            tx: &'a Sender<T>,
            // explicit flag instead of `Option<T>`: a niche-encoded tag is not folded by CBMC
            value: core::mem::MaybeUninit<T>,
            present: bool,
        }
        impl<T> SendFut<'_, T> {
            fn take(&mut self) -> T {
                assert!(self.present, "polled after completion");
                self.present = false;
                unsafe { self.value.assume_init_read() }
            }
        }
        impl<T> Unpin for SendFut<'_, T> {}
        impl<T> core::future::Future for SendFut<'_, T> {
            type Output = Result<(), SendError<T>>;
            fn poll(mut self: core::pin::Pin<&mut Self>, _cx: &mut Context<'_>) -> Poll<Self::Output> {
                if self.tx.0.closed() {
                    let v = self.take();
                    return Poll::Ready(Err(SendError(core::mem::ManuallyDrop::new(v))));
                }
                if self.tx.0.st().len >= self.tx.0.st().cap {
                    return Poll::Pending;
                }
                let v = self.take();
                self.tx.0.push(v);
                Poll::Ready(Ok(()))
            }
        }
        impl<T> Clone for Sender<T> {
            fn clone(&self) -> Self {
                self.0.st().tx_count += 1;
                Sender(self.0)
            }
        }
        impl<T> Drop for Sender<T> {
            fn drop(&mut self) {
                self.0.st().tx_count -= 1;
            }
        }
        impl<T> fmt::Debug for Sender<T> {
            fn fmt(&self, f: &mut fmt::Formatter<'_>) -> fmt::Result {
                f.write_str("Sender")
            }
        }
        impl<T> Receiver<T> {
            pub fn poll_recv(&mut self, _cx: &mut Context<'_>) -> Poll<Option<T>> {
                if let Some(v) = self.0.pop() {
                    return Poll::Ready(Some(v));
                }
                let s = self.0.st();
                if s.rx_closed || s.tx_count == 0 {
                    Poll::Ready(None)
                } else {
                    Poll::Pending
                }
            }
            pub fn try_recv(&mut self) -> Result<T, TryRecvError> {
                if let Some(v) = self.0.pop() {
                    return Ok(v);
                }
                let s = self.0.st();
                if s.rx_closed || s.tx_count == 0 {
                    Err(TryRecvError::Disconnected)
                } else {
                    Err(TryRecvError::Empty)
                }
            }
            pub fn recv(&mut self) -> RecvFut<'_, T> {
                RecvFut(self)
            }
            pub fn close(&mut self) {
                self.0.st().rx_closed = true;
            }
            pub fn len(&self) -> usize {
                self.0.st().len
            }
            pub fn is_empty(&self) -> bool {
                self.0.st().len == 0
            }
        }
        pub struct RecvFut<'a, T: 'static>(&'a mut Receiver<T>);
        impl<T> core::future::Future for RecvFut<'_, T> {
            type Output = Option<T>;
            fn poll(mut self: core::pin::Pin<&mut Self>, cx: &mut Context<'_>) -> Poll<Option<T>> {
                self.0.poll_recv(cx)
            }
        }
        impl<T> Drop for Receiver<T> {
            fn drop(&mut self) {
                self.0.st().rx_alive = false;
            }
        }
        impl<T> fmt::Debug for Receiver<T> {
            fn fmt(&self, f: &mut fmt::Formatter<'_>) -> fmt::Result {
                f.write_str("Receiver")
            }
        }

        // ------------------------------------------------------------ unbounded
        pub struct UnboundedSender<T: 'static>(Ptr<T>);
        pub struct UnboundedReceiver<T: 'static>(Ptr<T>);

        pub fn unbounded_channel<T: 'static>() -> (UnboundedSender<T>, UnboundedReceiver<T>) {
            let s = Ptr(Shared::new(usize::MAX) as *const Shared<T>);
            (UnboundedSender(s), UnboundedReceiver(s))
        }
        impl<T> UnboundedSender<T> {
            pub fn send(&self, message: T) -> Result<(), SendError<T>> {
                if self.0.closed() {
                    return Err(SendError(core::mem::ManuallyDrop::new(message)));
                }
                self.0.push(message);
                Ok(())
            }
            pub fn is_closed(&self) -> bool {
                self.0.closed()
            }
        }
        impl<T> Clone for UnboundedSender<T> {
            fn clone(&self) -> Self {
                self.0.st().tx_count += 1;
                UnboundedSender(self.0)
            }
        }
        impl<T> Drop for UnboundedSender<T> {
            fn drop(&mut self) {
                self.0.st().tx_count -= 1;
            }
        }
        impl<T> fmt::Debug for UnboundedSender<T> {
            fn fmt(&self, f: &mut fmt::Formatter<'_>) -> fmt::Result {
                f.write_str("UnboundedSender")
            }
        }
        impl<T> UnboundedReceiver<T> {
            pub fn poll_recv(&mut self, _cx: &mut Context<'_>) -> Poll<Option<T>> {
                if let Some(v) = self.0.pop() {
                    return Poll::Ready(Some(v));
                }
                let s = self.0.st();
                if s.rx_closed || s.tx_count == 0 {
                    Poll::Ready(None)
                } else {
                    Poll::Pending
                }
            }
            pub fn try_recv(&mut self) -> Result<T, TryRecvError> {
                if let Some(v) = self.0.pop() {
                    return Ok(v);
                }
                let s = self.0.st();
                if s.rx_closed || s.tx_count == 0 {
                    Err(TryRecvError::Disconnected)
                } else {
                    Err(TryRecvError::Empty)
                }
            }
            pub fn recv(&mut self) -> URecvFut<'_, T> {
                URecvFut(self)
            }
            pub fn close(&mut self) {
                self.0.st().rx_closed = true;
            }
            pub fn len(&self) -> usize {
                self.0.st().len
            }
            pub fn is_empty(&self) -> bool {
                self.0.st().len == 0
            }
        }
        pub struct URecvFut<'a, T: 'static>(&'a mut UnboundedReceiver<T>);
        impl<T> core::future::Future for URecvFut<'_, T> {
            type Output = Option<T>;
            fn poll(mut self: core::pin::Pin<&mut Self>, cx: &mut Context<'_>) -> Poll<Option<T>> {
                self.0.poll_recv(cx)
            }
        }
        impl<T> Drop for UnboundedReceiver<T> {
            fn drop(&mut self) {
                self.0.st().rx_alive = false;
            }
        }
        impl<T> fmt::Debug for UnboundedReceiver<T> {
            fn fmt(&self, f: &mut fmt::Formatter<'_>) -> fmt::Result {
                f.write_str("UnboundedReceiver")
            }
        }
    }

    pub mod oneshot {
        use core::cell::UnsafeCell;
        use core::fmt;
        use core::task::{Context, Poll};

        pub mod error {
            #[derive(Debug, PartialEq, Eq, Clone, Copy)]
            pub struct RecvError(pub(crate) ());
            impl core::fmt::Display for RecvError {
                fn fmt(&self, f: &mut core::fmt::Formatter<'_>) -> core::fmt::Result {
                    f.write_str("channel closed")
                }
            }
            #[derive(Debug, PartialEq, Eq, Clone, Copy)]
            pub enum TryRecvError {
                Empty,
                Closed,
            }
        }

        pub(crate) struct State<T> {
            value: *mut core::mem::MaybeUninit<T>, // own object, see mpsc::State::buf
            has_value: bool,
            rx_alive: bool,
            tx_done: bool,
        }
        impl<T> State<T> {
            fn take(&mut self) -> Option<T> {
                if self.has_value {
                    self.has_value = false;
                    Some(unsafe { (*self.value).assume_init_read() })
                } else {
                    None
                }
            }
        }
        pub(crate) struct Shared<T>(UnsafeCell<State<T>>);
        unsafe impl<T> Send for Shared<T> {}
        unsafe impl<T> Sync for Shared<T> {}

        /// handle -> shared state.  A RAW pointer on purpose: `Option<Sender<T>>` then has an explicit
        /// tag instead of the null-pointer niche of a reference, which CBMC cannot fold once the value
        /// has been moved through a struct copy (measured: `if let Some(tx) = &self.bnd_request_tx`
        /// explored both arms for a `None`).
        pub(crate) struct Ptr<T: 'static>(*const Shared<T>);
        impl<T> Clone for Ptr<T> {
            fn clone(&self) -> Self {
                Ptr(self.0)
            }
        }
        impl<T> Copy for Ptr<T> {}
        unsafe impl<T> Send for Ptr<T> {}
        unsafe impl<T> Sync for Ptr<T> {}
        impl<T> core::ops::Deref for Ptr<T> {
            type Target = Shared<T>;
            fn deref(&self) -> &Shared<T> {
                // SAFETY: the state is leaked (never freed) by `channel()`
                unsafe { &*self.0 }
            }
        }
        impl<T> Shared<T> {
            #[allow(clippy::mut_from_ref)]
            fn st(&self) -> &mut State<T> {
                unsafe { &mut *self.0.get() }
            }
        }

        pub struct Sender<T: 'static>(Ptr<T>);
        pub struct Receiver<T: 'static>(Ptr<T>);

        pub fn channel<T: 'static>() -> (Sender<T>, Receiver<T>) {
            let s: &'static Shared<T> = Box::leak(Box::new(Shared(UnsafeCell::new(State {
                value: Box::leak(Box::new(core::mem::MaybeUninit::<T>::uninit())) as *mut _,
                has_value: false,
                rx_alive: true,
                tx_done: false,
            }))));
            let s = Ptr(s as *const Shared<T>);
            (Sender(s), Receiver(s))
        }
        impl<T> Sender<T> {
            pub fn send(self, t: T) -> Result<(), T> {
                let s = self.0.st();
                if !s.rx_alive {
                    return Err(t);
                }
                unsafe { (*s.value).write(t) };
                s.has_value = true;
                Ok(())
                // `self` dropped here: tx_done = true
            }
            pub fn is_closed(&self) -> bool {
                !self.0.st().rx_alive
            }
        }
        impl<T> Drop for Sender<T> {
            fn drop(&mut self) {
                self.0.st().tx_done = true;
            }
        }
        impl<T> fmt::Debug for Sender<T> {
            fn fmt(&self, f: &mut fmt::Formatter<'_>) -> fmt::Result {
                f.write_str("oneshot::Sender")
            }
        }
        impl<T> Receiver<T> {
            pub fn try_recv(&mut self) -> Result<T, error::TryRecvError> {
                let s = self.0.st();
                if let Some(v) = s.take() {
                    return Ok(v);
                }
                if s.tx_done {
                    Err(error::TryRecvError::Closed)
                } else {
                    Err(error::TryRecvError::Empty)
                }
            }
            pub fn close(&mut self) {
                self.0.st().rx_alive = false;
            }
        }
        impl<T> Unpin for Receiver<T> {}
        impl<T> core::future::Future for Receiver<T> {
            type Output = Result<T, error::RecvError>;
            fn poll(self: core::pin::Pin<&mut Self>, _cx: &mut Context<'_>) -> Poll<Self::Output> {
                let s = self.0.st();
                if let Some(v) = s.take() {
                    return Poll::Ready(Ok(v));
                }
                if s.tx_done {
                    Poll::Ready(Err(error::RecvError(())))
                } else {
                    Poll::Pending
                }
            }
        }
        impl<T> Drop for Receiver<T> {
            fn drop(&mut self) {
                self.0.st().rx_alive = false;
            }
        }
        impl<T> fmt::Debug for Receiver<T> {
            fn fmt(&self, f: &mut fmt::Formatter<'_>) -> fmt::Result {
                f.write_str("oneshot::Receiver")
            }
        }
    }
}

pub mod io {
    //! the trait signatures of `tokio::io` (no implementations) + the io-util combinators penguin-socks uses
    pub use super::io_util_model::{AsyncBufReadExt, AsyncReadExt, AsyncWriteExt};
    use core::pin::Pin;
    use core::task::{Context, Poll};
    use std::io;

    pub struct ReadBuf<'a> {
        buf: &'a mut [u8],
        filled: usize,
    }
    impl<'a> ReadBuf<'a> {
        pub fn new(buf: &'a mut [u8]) -> Self {
            ReadBuf { buf, filled: 0 }
        }
        pub fn remaining(&self) -> usize {
            self.buf.len() - self.filled
        }
        pub fn capacity(&self) -> usize {
            self.buf.len()
        }
        pub fn filled(&self) -> &[u8] {
            &self.buf[..self.filled]
        }
        pub fn put_slice(&mut self, s: &[u8]) {
            assert!(self.remaining() >= s.len(), "buf.len() must fit in remaining()");
            let mut i = 0;
            while i < s.len() {
                self.buf[self.filled + i] = s[i];
                i += 1;
            }
            self.filled += s.len();
        }
    }

    pub trait AsyncRead {
        fn poll_read(self: Pin<&mut Self>, cx: &mut Context<'_>, buf: &mut ReadBuf<'_>) -> Poll<io::Result<()>>;
    }
    pub trait AsyncBufRead: AsyncRead {
        fn poll_fill_buf(self: Pin<&mut Self>, cx: &mut Context<'_>) -> Poll<io::Result<&[u8]>>;
        fn consume(self: Pin<&mut Self>, amt: usize);
    }
    pub trait AsyncWrite {
        fn poll_write(self: Pin<&mut Self>, cx: &mut Context<'_>, buf: &[u8]) -> Poll<Result<usize, io::Error>>;
        fn poll_flush(self: Pin<&mut Self>, cx: &mut Context<'_>) -> Poll<Result<(), io::Error>>;
        fn poll_shutdown(self: Pin<&mut Self>, cx: &mut Context<'_>) -> Poll<Result<(), io::Error>>;
        fn poll_write_vectored(
            self: Pin<&mut Self>,
            cx: &mut Context<'_>,
            bufs: &[io::IoSlice<'_>],
        ) -> Poll<Result<usize, io::Error>> {
            let buf = bufs.iter().find(|b| !b.is_empty()).map_or(&[][..], |b| &**b);
            self.poll_write(cx, buf)
        }
        fn is_write_vectored(&self) -> bool {
            false
        }
    }
}

/// `tokio::io` extension traits (feature `io-util`): only the combinators penguin-socks uses.
/// ASSUMED CONTRACT (tokio documentation): `read_exact` fills the whole buffer or fails with
/// `UnexpectedEof`; `read_u8/u16/u32` read exactly 1/2/4 bytes, big-endian; `read_until` appends
/// everything up to and including the delimiter, or up to end-of-file, and returns the number of
/// bytes appended; `write_all` writes the whole buffer (a zero-length write is `WriteZero`);
/// each future can be polled again after `Pending` without losing or repeating bytes.
pub mod io_util_model {
    use super::io::{AsyncBufRead, AsyncRead, AsyncWrite, ReadBuf};
    use core::future::Future;
    use core::pin::Pin;
    use core::task::{Context, Poll};
    use std::io;

    fn eof() -> io::Error {
        io::Error::from(io::ErrorKind::UnexpectedEof)
    }

    pub struct ReadExact<'a, R: ?Sized> {
        r: &'a mut R,
        buf: &'a mut [u8],
        filled: usize,
    }
    impl<R: AsyncRead + Unpin + ?Sized> Future for ReadExact<'_, R> {
        type Output = io::Result<usize>;
        fn poll(self: Pin<&mut Self>, cx: &mut Context<'_>) -> Poll<io::Result<usize>> {
            let me = self.get_mut();
            loop {
                if me.filled == me.buf.len() {
                    return Poll::Ready(Ok(me.filled));
                }
                let mut rb = ReadBuf::new(&mut me.buf[me.filled..]);
                match Pin::new(&mut *me.r).poll_read(cx, &mut rb) {
                    Poll::Pending => return Poll::Pending,
                    Poll::Ready(Err(e)) => return Poll::Ready(Err(e)),
                    Poll::Ready(Ok(())) => {
                        let n = rb.filled().len();
                        if n == 0 {
                            return Poll::Ready(Err(eof()));
                        }
                        me.filled += n;
                    }
                }
            }
        }
    }

    pub struct ReadInt<'a, R: ?Sized, const N: usize> {
        r: &'a mut R,
        buf: [u8; N],
        filled: usize,
    }
    impl<R: AsyncRead + Unpin + ?Sized, const N: usize> ReadInt<'_, R, N> {
        fn poll_bytes(&mut self, cx: &mut Context<'_>) -> Poll<io::Result<[u8; N]>> {
            loop {
                if self.filled == N {
                    return Poll::Ready(Ok(self.buf));
                }
                let mut rb = ReadBuf::new(&mut self.buf[self.filled..]);
                match Pin::new(&mut *self.r).poll_read(cx, &mut rb) {
                    Poll::Pending => return Poll::Pending,
                    Poll::Ready(Err(e)) => return Poll::Ready(Err(e)),
                    Poll::Ready(Ok(())) => {
                        let n = rb.filled().len();
                        if n == 0 {
                            return Poll::Ready(Err(eof()));
                        }
                        self.filled += n;
                    }
                }
            }
        }
    }
    pub struct ReadU8<'a, R: ?Sized>(ReadInt<'a, R, 1>);
    pub struct ReadU16<'a, R: ?Sized>(ReadInt<'a, R, 2>);
    pub struct ReadU32<'a, R: ?Sized>(ReadInt<'a, R, 4>);
    impl<R: AsyncRead + Unpin + ?Sized> Future for ReadU8<'_, R> {
        type Output = io::Result<u8>;
        fn poll(self: Pin<&mut Self>, cx: &mut Context<'_>) -> Poll<io::Result<u8>> {
            match self.get_mut().0.poll_bytes(cx) {
                Poll::Pending => Poll::Pending,
                Poll::Ready(Err(e)) => Poll::Ready(Err(e)),
                Poll::Ready(Ok(b)) => Poll::Ready(Ok(b[0])),
            }
        }
    }
    impl<R: AsyncRead + Unpin + ?Sized> Future for ReadU16<'_, R> {
        type Output = io::Result<u16>;
        fn poll(self: Pin<&mut Self>, cx: &mut Context<'_>) -> Poll<io::Result<u16>> {
            match self.get_mut().0.poll_bytes(cx) {
                Poll::Pending => Poll::Pending,
                Poll::Ready(Err(e)) => Poll::Ready(Err(e)),
                Poll::Ready(Ok(b)) => Poll::Ready(Ok((b[0] as u16) * 256 + b[1] as u16)),
            }
        }
    }
    impl<R: AsyncRead + Unpin + ?Sized> Future for ReadU32<'_, R> {
        type Output = io::Result<u32>;
        fn poll(self: Pin<&mut Self>, cx: &mut Context<'_>) -> Poll<io::Result<u32>> {
            match self.get_mut().0.poll_bytes(cx) {
                Poll::Pending => Poll::Pending,
                Poll::Ready(Err(e)) => Poll::Ready(Err(e)),
                Poll::Ready(Ok(b)) => Poll::Ready(Ok((b[0] as u32) * 16_777_216 + (b[1] as u32) * 65_536 + (b[2] as u32) * 256 + b[3] as u32)),
            }
        }
    }

    pub trait AsyncReadExt: AsyncRead {
        fn read_exact<'a>(&'a mut self, buf: &'a mut [u8]) -> ReadExact<'a, Self>
        where
            Self: Unpin,
        {
            ReadExact { r: self, buf, filled: 0 }
        }
        fn read_u8(&mut self) -> ReadU8<'_, Self>
        where
            Self: Unpin,
        {
            ReadU8(ReadInt { r: self, buf: [0; 1], filled: 0 })
        }
        fn read_u16(&mut self) -> ReadU16<'_, Self>
        where
            Self: Unpin,
        {
            ReadU16(ReadInt { r: self, buf: [0; 2], filled: 0 })
        }
        fn read_u32(&mut self) -> ReadU32<'_, Self>
        where
            Self: Unpin,
        {
            ReadU32(ReadInt { r: self, buf: [0; 4], filled: 0 })
        }
    }
    impl<R: AsyncRead + ?Sized> AsyncReadExt for R {}

    pub struct ReadUntil<'a, R: ?Sized> {
        r: &'a mut R,
        delim: u8,
        out: &'a mut Vec<u8>,
        read: usize,
    }
    impl<R: AsyncBufRead + Unpin + ?Sized> Future for ReadUntil<'_, R> {
        type Output = io::Result<usize>;
        fn poll(self: Pin<&mut Self>, cx: &mut Context<'_>) -> Poll<io::Result<usize>> {
            let me = self.get_mut();
            loop {
                let (done, used) = {
                    let avail = match Pin::new(&mut *me.r).poll_fill_buf(cx) {
                        Poll::Pending => return Poll::Pending,
                        Poll::Ready(Err(e)) => return Poll::Ready(Err(e)),
                        Poll::Ready(Ok(a)) => a,
                    };
                    let mut i = 0;
                    let mut found = false;
                    while i < avail.len() {
                        me.out.push(avail[i]);
                        i += 1;
                        if avail[i - 1] == me.delim {
                            found = true;
                            break;
                        }
                    }
                    (found || avail.is_empty(), i)
                };
                Pin::new(&mut *me.r).consume(used);
                me.read += used;
                if done {
                    return Poll::Ready(Ok(me.read));
                }
            }
        }
    }
    pub trait AsyncBufReadExt: AsyncBufRead {
        fn read_until<'a>(&'a mut self, byte: u8, buf: &'a mut Vec<u8>) -> ReadUntil<'a, Self>
        where
            Self: Unpin,
        {
            ReadUntil { r: self, delim: byte, out: buf, read: 0 }
        }
    }
    impl<R: AsyncBufRead + ?Sized> AsyncBufReadExt for R {}

    pub struct WriteAll<'a, W: ?Sized> {
        w: &'a mut W,
        buf: &'a [u8],
    }
    impl<W: AsyncWrite + Unpin + ?Sized> Future for WriteAll<'_, W> {
        type Output = io::Result<()>;
        fn poll(self: Pin<&mut Self>, cx: &mut Context<'_>) -> Poll<io::Result<()>> {
            let me = self.get_mut();
            while !me.buf.is_empty() {
                match Pin::new(&mut *me.w).poll_write(cx, me.buf) {
                    Poll::Pending => return Poll::Pending,
                    Poll::Ready(Err(e)) => return Poll::Ready(Err(e)),
                    Poll::Ready(Ok(0)) => return Poll::Ready(Err(io::Error::from(io::ErrorKind::WriteZero))),
                    Poll::Ready(Ok(n)) => me.buf = &me.buf[n..],
                }
            }
            Poll::Ready(Ok(()))
        }
    }
    pub struct Flush<'a, W: ?Sized>(&'a mut W);
    impl<W: AsyncWrite + Unpin + ?Sized> Future for Flush<'_, W> {
        type Output = io::Result<()>;
        fn poll(self: Pin<&mut Self>, cx: &mut Context<'_>) -> Poll<io::Result<()>> {
            Pin::new(&mut *self.get_mut().0).poll_flush(cx)
        }
    }
    pub trait AsyncWriteExt: AsyncWrite {
        fn write_all<'a>(&'a mut self, src: &'a [u8]) -> WriteAll<'a, Self>
        where
            Self: Unpin,
        {
            WriteAll { w: self, buf: src }
        }
        fn flush(&mut self) -> Flush<'_, Self>
        where
            Self: Unpin,
        {
            Flush(self)
        }
    }
    impl<W: AsyncWrite + ?Sized> AsyncWriteExt for W {}
}

/// `tokio::time` (feature `time`): what penguin-mux's keepalive code names.
/// ASSUMED CONTRACT: an `Interval` yields its ticks one at a time, each `tick().await` completing
/// when the next tick is due.  *When* ticks are due is decided by the harness through
/// [`time::model_release_ticks`] (the model has no clock); "one tick per period, the first one
/// immediately" is tokio's documented behaviour and is stated as an assumption wherever a bound in
/// wall-clock terms is derived from the per-tick contract.  `sleep`/`timeout` are present only so
/// that the crate compiles; no unit under contract calls them.
pub mod time {
    use core::future::Future;
    use core::pin::Pin;
    use core::task::{Context, Poll};
    pub use core::time::Duration;

    static mut TICKS_DUE: usize = 0;
    /// harness hook: `n` further ticks are due
    pub fn model_release_ticks(n: usize) {
        unsafe { TICKS_DUE += n }
    }
    pub fn model_ticks_due() -> usize {
        unsafe { TICKS_DUE }
    }

    #[derive(Clone, Copy, Debug, PartialEq, Eq, PartialOrd, Ord)]
    pub struct Instant(u64);
    impl Instant {
        pub fn now() -> Instant {
            Instant(0)
        }
    }
    #[derive(Clone, Copy, Debug, PartialEq, Eq)]
    pub enum MissedTickBehavior {
        Burst,
        Delay,
        Skip,
    }
    #[derive(Debug)]
    pub struct Interval {
        period: Duration,
        behavior: MissedTickBehavior,
    }
    pub fn interval(period: Duration) -> Interval {
        assert!(period > Duration::ZERO, "`period` must be non-zero.");
        Interval { period, behavior: MissedTickBehavior::Burst }
    }
    impl Interval {
        pub fn set_missed_tick_behavior(&mut self, behavior: MissedTickBehavior) {
            self.behavior = behavior;
        }
        pub fn period(&self) -> Duration {
            self.period
        }
        pub fn tick(&mut self) -> Tick<'_> {
            Tick(self)
        }
    }
    pub struct Tick<'a>(&'a mut Interval);
    impl Future for Tick<'_> {
        type Output = Instant;
        fn poll(self: Pin<&mut Self>, _cx: &mut Context<'_>) -> Poll<Instant> {
            unsafe {
                if TICKS_DUE > 0 {
                    TICKS_DUE -= 1;
                    Poll::Ready(Instant(0))
                } else {
                    Poll::Pending
                }
            }
        }
    }
    pub mod error {
        #[derive(Debug, PartialEq, Eq)]
        pub struct Elapsed(pub(crate) ());
        impl core::fmt::Display for Elapsed {
            fn fmt(&self, f: &mut core::fmt::Formatter<'_>) -> core::fmt::Result {
                f.write_str("deadline has elapsed")
            }
        }
        impl std::error::Error for Elapsed {}
    }
    pub async fn timeout<F: Future>(_duration: Duration, future: F) -> Result<F::Output, error::Elapsed> {
        Ok(future.await)
    }
    pub async fn sleep(_duration: Duration) {
        core::future::pending::<()>().await
    }
}

