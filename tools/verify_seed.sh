#!/bin/sh
# tools/verify_seed.sh <seed-dir> <cargo -p args> <demo test filter>
# Confirms in a scratch worktree: patch compiles + existing tests of the given crates pass;
# demo fails with the patch and passes without it. Prints a summary; cleans up.
set -u
SD=$1; PKG=$2; FILTER=$3
WT=/tmp/vs-$(basename $SD)
export CARGO_TARGET_DIR=/tmp/vs-target CARGO_NET_OFFLINE=true
git -C /repo worktree add -f $WT HEAD >/dev/null 2>&1 || exit 3
cd $WT
git apply $SD/patch.diff || { echo "PATCH DOES NOT APPLY"; git -C /repo worktree remove --force $WT; exit 3; }
echo "== existing tests with patch ($PKG)"
cargo test --offline $PKG 2>&1 | grep -E "^test result|FAILED|failed" | head -8
git apply $SD/demo.diff || echo "DEMO DOES NOT APPLY"
echo "== demo with patch (expect FAIL)"
cargo test --offline $PKG $FILTER 2>&1 | grep -E "^test result|^test .*(FAILED|ok)$" | head -8
git apply -R $SD/patch.diff
echo "== demo without patch (expect ok)"
cargo test --offline $PKG $FILTER 2>&1 | grep -E "^test result|^test .*(FAILED|ok)$" | head -8
cd /; git -C /repo worktree remove --force $WT
