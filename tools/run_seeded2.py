#!/usr/bin/env python3
"""tools/run_seeded2.py <slot> <seed-id> [PROP ...]
Like run_seeded.py, but leaves /repo alone: the patch is applied to a scratch git worktree of /repo's
HEAD (outside /repo and /verif), the checks run against it (VERIF_REPO) with their own Kani cache
slot and evidence directory, and the worktree is removed afterwards.  Several slots can run in
parallel with each other and with checks of the unchanged tree."""
import json, os, subprocess, sys, time, shutil
V = os.path.dirname(os.path.dirname(os.path.abspath(__file__)))
slot, sid = sys.argv[1], sys.argv[2]
d = os.path.join(V, "seeded", sid)
meta = json.load(open(os.path.join(d, "meta.json")))
props = sys.argv[3:] or meta.get("check_properties") or [meta["property"]]
wt = "/tmp/seedrepo-%s" % slot
subprocess.run(["git", "-C", "/repo", "worktree", "remove", "--force", wt], capture_output=True)
subprocess.check_call(["git", "-C", "/repo", "worktree", "add", "-f", wt, "HEAD"], stdout=subprocess.DEVNULL, stderr=subprocess.DEVNULL)
res = {}
try:
    subprocess.check_call(["git", "-C", wt, "apply", os.path.join(d, "patch.diff")])
    env = dict(os.environ, VERIF_REPO=wt, VERIF_CACHE="/tmp/vc-%s" % slot, VERIF_SCRATCH_BASE="/tmp/vs-%s" % slot,
               VERIF_EVIDENCE_DIR="/tmp/seed-evidence-%s" % slot)
    os.makedirs(env["VERIF_SCRATCH_BASE"], exist_ok=True)
    for p in props:
        t0 = time.time()
        pr = subprocess.run([os.path.join(V, "check"), p], capture_output=True, text=True, cwd=V, env=env)
        lines = [l for l in pr.stdout.split("\n") if l.startswith(("VIOLATION", "KNOWN-FINDING", "  not discharged", "  UNDECIDED", "  NOTE", p + " ["))]
        res[p] = dict(exit=pr.returncode, lines=[l[:700] for l in lines], wall_s=round(time.time() - t0, 1))
        print(sid, p, "exit", pr.returncode, flush=True)
        for l in lines:
            print("   ", l[:300], flush=True)
finally:
    subprocess.run(["git", "-C", "/repo", "worktree", "remove", "--force", wt], capture_output=True)
    shutil.rmtree("/tmp/seed-evidence-%s" % slot, ignore_errors=True)
json.dump(res, open(os.path.join(d, "result.json"), "w"), indent=1)
