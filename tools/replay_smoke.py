#!/usr/bin/env python3
"""tools/replay_smoke.py <crate> <features> <filter...>: compile the injected harness modules with the
ORDINARY toolchain against the REAL dependencies (--cfg verif_replay) and run the selected harnesses
as #[test]s with all `kani::any()` values = 0.  A differential sanity check of the dependency
stand-ins: a contract that Kani proves against the models must at least hold on the real crates
for the zero input."""
import os, subprocess, sys, shutil
sys.path.insert(0, os.path.dirname(os.path.abspath(__file__)))
import kani_run as KR
crate, features, filters = sys.argv[1], sys.argv[2], sys.argv[3:]
os.environ.setdefault("VERIF_SCRATCH_BASE", "/tmp/vs-smoke")
os.makedirs(os.environ["VERIF_SCRATCH_BASE"], exist_ok=True)
scratch, _ = KR.make_scratch("real")
try:
    rf = os.path.join(scratch, "empty.replay")
    open(rf, "w").write("# all zeros\n")
    env = dict(os.environ, CARGO_NET_OFFLINE="true", RUSTFLAGS="--cfg verif_replay",
               CARGO_TARGET_DIR=os.path.join(KR.CACHE, "replay-target"), VERIF_REPLAY_FILE=rf)
    env.pop("RUSTUP_TOOLCHAIN", None)
    cmd = ["cargo", "test", "--offline", "-p", crate, "--lib"]
    if features:
        cmd += ["--no-default-features", "--features", features]
    cmd += ["--"] + filters + ["--test-threads", "1"]
    pr = subprocess.run(cmd, cwd=scratch, env=env, capture_output=True, text=True)
    out = pr.stdout + pr.stderr
    keep = [l for l in out.split("\n") if l.startswith(("test ", "error", "thread ")) or "panicked" in l or "test result" in l or "assumption" in l]
    print("\n".join(keep[-150:]) if keep else out[-4000:])
    sys.exit(pr.returncode)
finally:
    shutil.rmtree(scratch, ignore_errors=True)
