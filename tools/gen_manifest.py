#!/usr/bin/env python3
"""MANIFEST.json is generated from plan.toml (claimed checks) + not_applicable.toml."""
import json, os, tomllib
V = os.path.dirname(os.path.dirname(os.path.abspath(__file__)))
plan = tomllib.load(open(os.path.join(V, "plan.toml"), "rb"))
na = tomllib.load(open(os.path.join(V, "not_applicable.toml"), "rb"))
checks = []
for pid in sorted(plan["property"]):
    p = plan["property"][pid]
    checks.append(dict(
        property_id=pid,
        quick_cmd="./check %s" % pid,
        thorough_cmd="./check %s --thorough" % pid,
        evidence_file="evidence/%s.json" % pid,
        replay_cmd_template="./check %s --replay {path}" % pid,
        engine="verus+kani",
        level_claimed=dict(category=p.get("level", "other"), text=p["claim"], design_ref=p.get("design_ref", "DESIGN.md section 3 " + pid)),
        level_note=p["note"],
        technique=p.get("technique", "contract-based deductive verification (Verus on extracted functions + Kani harness contracts)"),
    ))
claimed = {c["property_id"] for c in checks}
m = dict(
    version=1,
    setup_cmd="./setup.sh",
    hooks=dict(
        guard="kani",
        enable="no hook in /repo: harness modules (cfg(kani) / cfg(verif_replay)) are added to a per-run scratch copy of the working tree; see kani/inject/manifest.toml",
        baseline_off_cmd="cd /repo && cargo test --workspace --no-fail-fast --offline",
        source_commits=[],
        add_only=True,
    ),
    engines=[
        dict(name="verus", path="tools/verus_unit.py", serves_properties=sorted(pid for pid in claimed if plan["property"][pid].get("verus_units")),
             kind_free_text="Verus 0.2026.09.13 on functions extracted mechanically from /repo on every run (tools/extract.py), contracts from verus/units/*.toml"),
        dict(name="kani", path="tools/kani_run.py", serves_properties=sorted(claimed),
             kind_free_text="Kani 0.68 / CBMC 6.11 harness-as-contract on a scratch copy of the working tree (kani/inject/*), counterexamples replayed on the normally compiled code"),
    ],
    checks=checks,
    not_applicable=[dict(property_id=k, reason=v) for k, v in sorted(na["not_applicable"].items()) if k not in claimed],
    notes="Verdicts: exit 0 all obligations discharged; exit 1 VIOLATION (contract fails on current code, counterexample replayed where the verifier gives one); exit 2 undecided (tool limit / lost anchor), never an alarm. known_findings.txt lists fixed and open findings.",
)
json.dump(m, open(os.path.join(V, "MANIFEST.json"), "w"), indent=1)
print("claimed:", sorted(claimed), "n/a:", [x["property_id"] for x in m["not_applicable"]])
