#!/usr/bin/env python3
"""Mechanical extraction of Rust items from /repo into a Verus file.

The body text of every extracted item is taken byte-for-byte from the source
file named in the unit description; the only transformations are the declared
rewrite rules R1..R7 of DESIGN.md section 2.1.  Every rewrite that fires is
logged (rule id, count) together with the sha256 of the source span, and goes
into the evidence file.

A missing item, a lost anchor, or a rewrite pattern that no longer matches
raises ExtractError: the caller turns that into "undecided" (exit 2), never
into a VIOLATION.
"""
import hashlib
import re


class ExtractError(Exception):
    pass


# --------------------------------------------------------------------------
# masking: same-length copy of the text in which comments, string literals and
# char literals are blanked, so that brace matching and keyword search cannot
# be fooled by their contents.
# --------------------------------------------------------------------------
def mask(text):
    out = list(text)
    n = len(text)
    i = 0

    def blank(a, b):
        for k in range(a, b):
            if out[k] != "\n":
                out[k] = " "

    while i < n:
        c = text[i]
        if c == "/" and i + 1 < n and text[i + 1] == "/":
            j = text.find("\n", i)
            j = n if j < 0 else j
            blank(i, j)
            i = j
        elif c == "/" and i + 1 < n and text[i + 1] == "*":
            depth = 1
            j = i + 2
            while j < n and depth:
                if text.startswith("/*", j):
                    depth += 1
                    j += 2
                elif text.startswith("*/", j):
                    depth -= 1
                    j += 2
                else:
                    j += 1
            blank(i, j)
            i = j
        elif c == '"' or (c == "b" and i + 1 < n and text[i + 1] == '"' and not _identch(text, i - 1)):
            s = i
            if c == "b":
                i += 1
            j = i + 1
            while j < n and text[j] != '"':
                j += 2 if text[j] == "\\" else 1
            blank(s + (1 if c == "b" else 0) + 1, j)
            i = j + 1
        elif c == "r" and not _identch(text, i - 1) and re.match(r'r#*"', text[i:i + 8] or ""):
            m = re.match(r'r(#*)"', text[i:])
            hashes = m.group(1)
            end = text.find('"' + hashes, i + len(m.group(0)))
            end = n if end < 0 else end
            blank(i + len(m.group(0)), end)
            i = end + 1 + len(hashes)
        elif c == "'":
            # char literal or lifetime
            if i + 1 < n and text[i + 1] == "\\":
                j = text.find("'", i + 2)
                # '\'' case
                if j == i + 2:
                    j = text.find("'", j + 1)
                blank(i + 1, j)
                i = j + 1
            elif i + 2 < n and text[i + 2] == "'":
                blank(i + 1, i + 2)
                i += 3
            else:
                i += 1  # lifetime
        else:
            i += 1
    return "".join(out)


def _identch(text, i):
    return i >= 0 and (text[i].isalnum() or text[i] == "_")


OPEN = {"{": "}", "(": ")", "[": "]"}


def match_close(m, i):
    """m: masked text, i: index of an opening bracket. returns index of its partner."""
    stack = []
    n = len(m)
    k = i
    while k < n:
        ch = m[k]
        if ch in OPEN:
            stack.append(OPEN[ch])
        elif ch in ")]}":
            if not stack or stack[-1] != ch:
                raise ExtractError("unbalanced bracket at %d" % k)
            stack.pop()
            if not stack:
                return k
        k += 1
    raise ExtractError("no closing bracket for %d" % i)


def match_angle(m, i):
    """m[i] == '<' opening a generics list; returns the index of the matching '>'."""
    depth = 0
    k = i
    while k < len(m):
        ch = m[k]
        if ch == "<":
            depth += 1
        elif ch == ">" and m[k - 1] != "-" and m[k - 1] != "=":
            depth -= 1
            if depth == 0:
                return k
        elif ch in "({[":
            k = match_close(m, k)
        elif ch in ";{":
            break
        k += 1
    raise ExtractError("no closing '>' for %d" % i)


def norm_ws(s):
    return re.sub(r"\s+", " ", s).strip()


class Source:
    def __init__(self, path):
        self.path = path
        with open(path, encoding="utf-8") as f:
            self.text = f.read()
        self.m = mask(self.text)

    def line_of(self, idx):
        return self.text.count("\n", 0, idx) + 1

    # -- locating ----------------------------------------------------------
    def find_impl(self, header):
        """header e.g. 'TryFrom<u8> for OpCode' or 'LongChain<'a>' (inherent).
        Matches `impl[<generics>] <header> {` with whitespace normalised; if several
        impl blocks match (inherent impls split in two), all are returned."""
        want = norm_ws(header)
        res = []
        for mm in re.finditer(r"\bimpl\b", self.m):
            i = mm.end()
            j = i
            while self.m[j].isspace():
                j += 1
            if self.m[j] == "<":
                j = match_angle(self.m, j) + 1
            k = self.m.find("{", j)
            if k < 0:
                continue
            head = norm_ws(self.text[j:k])
            head = re.sub(r"\s+where\s.*$", "", head)
            if head == want:
                res.append((mm.start(), k, match_close(self.m, k)))
        if not res:
            raise ExtractError("impl `%s` not found in %s" % (header, self.path))
        return res

    def find_fn(self, name, span=None):
        lo, hi = span if span else (0, len(self.m))
        hits = []
        for mm in re.finditer(r"\bfn\s+%s\b" % re.escape(name), self.m[lo:hi]):
            s = lo + mm.start()
            # depth relative to span must be 0 (no nested fn in another fn body)
            hits.append(s)
        if not hits:
            raise ExtractError("fn `%s` not found in %s" % (name, self.path))
        if len(hits) > 1:
            # keep those at brace depth 0 relative to span
            keep = []
            for s in hits:
                depth = 0
                for ch in self.m[lo:s]:
                    if ch == "{":
                        depth += 1
                    elif ch == "}":
                        depth -= 1
                if depth == (1 if span else 0):
                    keep.append(s)
            hits = keep or hits
        return hits

    def fn_parts(self, start):
        """start: index of `fn`. returns dict(name, generics, params, ret, where, body, span)."""
        m, t = self.m, self.text
        mm = re.match(r"fn\s+(\w+)\s*", m[start:])
        name = mm.group(1)
        i = start + mm.end()
        generics = ""
        if m[i] == "<":
            j = match_angle(m, i)
            generics = t[i:j + 1]
            i = j + 1
        while m[i].isspace():
            i += 1
        if m[i] != "(":
            raise ExtractError("fn %s: expected '('" % name)
        pc = match_close(m, i)
        params = t[i + 1:pc]
        # body brace: first '{' after pc at depth 0 that is not inside <> of return type
        k = pc + 1
        while True:
            if m[k] == "{":
                break
            if m[k] == ";":
                raise ExtractError("fn %s has no body" % name)
            if m[k] in "([":
                k = match_close(m, k)
            k += 1
        head = t[pc + 1:k]
        ret, where = "", ""
        hm = re.match(r"\s*->\s*(.*?)(\bwhere\b.*)?$", head, re.S)
        if hm:
            ret = norm_ws(hm.group(1))
            where = norm_ws(hm.group(2) or "")
        else:
            wm = re.match(r"\s*(\bwhere\b.*)$", head, re.S)
            where = norm_ws(wm.group(1)) if wm else ""
        bc = match_close(m, k)
        return dict(name=name, generics=generics, params=params, ret=ret, where=where,
                    body=t[k + 1:bc], body_span=(k + 1, bc), span=(start, bc + 1))

    def find_type(self, kind, name):
        mm = re.search(r"\b%s\s+%s\b" % (kind, re.escape(name)), self.m)
        if not mm:
            raise ExtractError("%s `%s` not found in %s" % (kind, name, self.path))
        i = mm.end()
        generics = ""
        while self.m[i].isspace():
            i += 1
        if self.m[i] == "<":
            j = match_angle(self.m, i)
            generics = self.text[i:j + 1]
            i = j + 1
        k = i
        while self.m[k] not in "{(;":
            k += 1
        if self.m[k] == ";":
            return dict(kind=kind, name=name, generics=generics, body=None, tuple=None,
                        span=(mm.start(), k + 1), attrs=self._attrs_before(mm.start()))
        c = match_close(self.m, k)
        if self.m[k] == "(":
            # tuple struct: `struct X(T);`
            e = self.m.find(";", c)
            return dict(kind=kind, name=name, generics=generics, body=None, tuple=self.text[k + 1:c],
                        span=(mm.start(), e + 1), attrs=self._attrs_before(mm.start()))
        return dict(kind=kind, name=name, generics=generics, body=self.text[k + 1:c], tuple=None,
                    span=(mm.start(), c + 1), attrs=self._attrs_before(mm.start()))

    def _attrs_before(self, idx):
        """collect #[...] attributes directly preceding (skipping visibility / doc comments)."""
        attrs = []
        i = idx
        t, m = self.text, self.m
        while True:
            j = i
            while j > 0 and m[j - 1].isspace():
                j -= 1
            # visibility
            vm = re.search(r"(pub(\s*\([^)]*\))?)$", m[:j])
            if vm:
                i = vm.start()
                continue
            if j > 0 and m[j - 1] == "]":
                # find the matching '[' backwards
                depth = 0
                k = j - 1
                while k >= 0:
                    if m[k] == "]":
                        depth += 1
                    elif m[k] == "[":
                        depth -= 1
                        if depth == 0:
                            break
                    k -= 1
                if k > 0 and m[k - 1] == "#":
                    attrs.insert(0, t[k - 1:j])
                    i = k - 1
                    continue
            break
        return attrs

    def find_macro(self, name):
        mm = re.search(r"\bmacro_rules!\s*%s\b" % re.escape(name), self.m)
        if not mm:
            raise ExtractError("macro_rules! %s not found in %s" % (name, self.path))
        k = self.m.find("{", mm.end())
        c = match_close(self.m, k)
        return dict(name=name, text=self.text[mm.start():c + 1], span=(mm.start(), c + 1))

    def find_const(self, name):
        mm = re.search(r"\bconst\s+%s\s*:" % re.escape(name), self.m)
        if not mm:
            raise ExtractError("const %s not found in %s" % (name, self.path))
        e = self.m.find(";", mm.end())
        return dict(name=name, text=self.text[mm.start():e + 1], span=(mm.start(), e + 1))


# --------------------------------------------------------------------------
# rewrites
# --------------------------------------------------------------------------
class Log:
    def __init__(self):
        self.entries = []

    def add(self, item, rule, count, note=""):
        if count:
            self.entries.append(dict(item=item, rule=rule, count=count, note=note))


def strip_comments(text):
    m = mask(text)
    out = []
    i = 0
    n = len(text)
    while i < n:
        if text.startswith("//", i) and m[i:i + 2] == "  " or (text.startswith("//", i) and m[i] == " "):
            j = text.find("\n", i)
            j = n if j < 0 else j
            i = j
        elif text.startswith("/*", i) and m[i] == " ":
            j = text.find("*/", i)
            i = j + 2
        else:
            out.append(text[i])
            i += 1
    return "".join(out)


def r1_attrs(body, item, log):
    """drop #[cfg(debug_assertions)]-guarded statements and inert attributes inside bodies."""
    m = mask(body)
    cnt = 0
    out = []
    i = 0
    pat = re.compile(r"#\[cfg\(debug_assertions\)\]\s*")
    while True:
        mm = pat.search(m, i)
        if not mm:
            out.append(body[i:])
            break
        out.append(body[i:mm.start()])
        # statement = up to next ';' at depth 0
        k = mm.end()
        while m[k] != ";":
            if m[k] in "({[":
                k = match_close(m, k)
            k += 1
        i = k + 1
        cnt += 1
    body = "".join(out)
    log.add(item, "R1 drop cfg(debug_assertions) statement", cnt)
    # other inert attributes on statements/expressions
    body2, c2 = re.subn(r"#\[(inline|must_use|expect\([^\]]*\)|allow\([^\]]*\)|tracing::instrument[^\]]*)\]\s*", "", body)
    log.add(item, "R1 drop inert attribute", c2)
    return body2


def apply_subst(text, rules, item, log, what="R3/R5 substitution"):
    """rules: list of [pattern, replacement, min_count]; pattern is a regex.
    A rule that is required (min_count > 0) and does not fire means the source
    moved away from what the unit expects -> ExtractError."""
    for r in rules or []:
        pat, rep = r[0], r[1]
        need = r[2] if len(r) > 2 else 0
        text, c = re.subn(pat, rep, text)
        if c < need:
            raise ExtractError("%s: rewrite `%s` matched %d time(s), expected >= %d" % (item, pat, c, need))
        log.add(item, what, c, "%s -> %s" % (pat, rep))
    return text


def loops(body):
    """indices (kw_start, kw, brace_open) of while/loop/for keywords in body, in order."""
    m = mask(body)
    res = []
    for mm in re.finditer(r"\b(while|loop|for)\b", m):
        kw = mm.group(1)
        k = mm.end()
        if kw == "for":
            # skip `for<'a>` HRTB and `impl X for Y`
            rest = m[k:k + 40]
            if re.match(r"\s*<", rest):
                continue
        while k < len(m) and m[k] != "{":
            if m[k] in "([":
                k = match_close(m, k)
            k += 1
        res.append((mm.start(), kw, k))
    return res


def r7_loop_hints(body, hints, item, log):
    """hints: list of dict(ordinal=int, invariant=str, decreases=str, iter=str(optional for `for`))."""
    if not hints:
        return body
    ls = loops(body)
    edits = []
    for h in hints:
        o = h["ordinal"]
        if o >= len(ls):
            raise ExtractError("%s: loop #%d not found (body has %d loops)" % (item, o, len(ls)))
        kws, kw, br = ls[o]
        if "kind" in h and h["kind"] != kw:
            raise ExtractError("%s: loop #%d is `%s`, unit expects `%s`" % (item, o, kw, h["kind"]))
        ins = "\n"
        if h.get("invariant_except_break"):
            ins += "    invariant_except_break " + h["invariant_except_break"].strip().rstrip(",") + ",\n"
        if h.get("invariant"):
            ins += "    invariant " + h["invariant"].strip().rstrip(",") + ",\n"
        if h.get("ensures"):
            ins += "    ensures " + h["ensures"].strip().rstrip(",") + ",\n"
        if h.get("decreases"):
            ins += "    decreases " + h["decreases"].strip() + ",\n"
        edits.append((br, br, ins))
        if kw == "for" and h.get("iter"):
            mm = re.search(r"\bin\b\s*", body[kws:br])
            p = kws + mm.end()
            edits.append((p, p, h["iter"] + ": "))
    edits.sort(key=lambda e: -e[0])
    for a, b, ins in edits:
        body = body[:a] + ins + body[b:]
    log.add(item, "R7 loop invariant/decreases inserted", len(hints))
    return body


def r7_anchors(body, inserts, item, log):
    """inserts: list of dict(after|before=literal text, text=ghost text). literal must occur exactly once."""
    for ins in inserts or []:
        key = "after" if "after" in ins else "before"
        lit = ins[key]
        # whitespace-insensitive literal search
        pat = r"\s*".join(re.escape(tok) for tok in lit.split())
        ms = list(re.finditer(pat, body))
        want = ins.get("occurrence")
        if want is None:
            if len(ms) != 1:
                raise ExtractError("%s: anchor `%s` occurs %d times, expected 1" % (item, lit, len(ms)))
            mm = ms[0]
        else:
            if want >= len(ms):
                raise ExtractError("%s: anchor `%s` occurrence %d not found" % (item, lit, want))
            mm = ms[want]
        p = mm.end() if key == "after" else mm.start()
        body = body[:p] + " " + ins["text"] + " " + body[p:]
    log.add(item, "R7 ghost text at anchor", len(inserts or []))
    return body


def r2_fields_pub(body, item, log):
    """struct body: make every field pub."""
    m = mask(body)
    out = []
    depth = 0
    i = 0
    cnt = 0
    # split on top-level commas
    start = 0
    parts = []
    for k, ch in enumerate(m):
        if ch in "({[<":
            depth += 1
        elif ch in ")}]>" and not (ch == ">" and m[k - 1] == "-"):
            depth -= 1
        elif ch == "," and depth == 0:
            parts.append(body[start:k])
            start = k + 1
    parts.append(body[start:])
    res = []
    for p in parts:
        q = strip_comments(p).strip()
        if not q:
            continue
        q = re.sub(r"#\[[^\]]*\]\s*", "", q)
        q2 = re.sub(r"^(pub(\s*\([^)]*\))?\s+)?", "pub ", q, count=1)
        if q2 != q:
            cnt += 1
        res.append("    " + q2)
    log.add(item, "R2 field visibility -> pub", cnt)
    return ",\n".join(res) + ",\n"


def keep_derives(attrs, keep=("Clone", "Copy")):
    out = []
    for a in attrs:
        dm = re.match(r"#\[derive\((.*)\)\]$", a, re.S)
        if dm:
            names = [x.strip() for x in dm.group(1).split(",")]
            k = [x for x in names if x in keep]
            if k:
                out.append("#[derive(%s)]" % ", ".join(k))
        elif a.startswith("#[repr("):
            out.append(a)
    return out


def sha(text):
    return hashlib.sha256(text.encode()).hexdigest()
