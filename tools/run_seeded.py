#!/usr/bin/env python3
"""tools/run_seeded.py <seed-id> [PROP ...]
Applies /verif/seeded/<id>/patch.diff to /repo, runs ./check for the property it breaks (or the
given ones), records exit code and VIOLATION lines in seeded/<id>/result.json, and ALWAYS restores
/repo (git checkout -- .).  Nothing is committed in /repo."""
import json, os, subprocess, sys, time
V = os.path.dirname(os.path.dirname(os.path.abspath(__file__)))
sid = sys.argv[1]
d = os.path.join(V, "seeded", sid)
meta = json.load(open(os.path.join(d, "meta.json")))
props = sys.argv[2:] or meta.get("check_properties") or [meta["property"]]
st = subprocess.run(["git", "-C", "/repo", "status", "--porcelain"], capture_output=True, text=True).stdout.strip()
if st:
    sys.exit("refusing: /repo has uncommitted changes:\n" + st)
subprocess.check_call(["git", "-C", "/repo", "apply", os.path.join(d, "patch.diff")])
res = {}
try:
    for p in props:
        t0 = time.time()
        pr = subprocess.run([os.path.join(V, "check"), p], capture_output=True, text=True, cwd=V)
        lines = [l for l in pr.stdout.split("\n") if l.startswith(("VIOLATION", "KNOWN-FINDING", "  not discharged", "  UNDECIDED", p + " ["))]
        res[p] = dict(exit=pr.returncode, lines=lines, wall_s=round(time.time() - t0, 1))
        print(p, "exit", pr.returncode)
        for l in lines:
            print("   ", l[:300])
finally:
    subprocess.check_call(["git", "-C", "/repo", "checkout", "--", "."])
    subprocess.run(["git", "-C", "/repo", "clean", "-fdq"], check=False)
json.dump(res, open(os.path.join(d, "result.json"), "w"), indent=1)
# evidence files were rewritten by the run on the patched tree: restore the committed ones
subprocess.run(["git", "-C", V, "checkout", "--", "evidence"], check=False)
