#!/usr/bin/env python3
"""Rewrites section 10 of DESIGN.md (between the markers) from seeded/*/meta.json + result.json."""
import glob, json, os, re
V = os.path.dirname(os.path.dirname(os.path.abspath(__file__)))
B, E = "<!-- SEEDS-TABLE-BEGIN -->", "<!-- SEEDS-TABLE-END -->"
rows = []
for d in sorted(glob.glob(os.path.join(V, "seeded", "*"))):
    mp = os.path.join(d, "meta.json")
    if not os.path.exists(mp):
        continue
    m = json.load(open(mp))
    rp = os.path.join(d, "result.json")
    res = json.load(open(rp)) if os.path.exists(rp) else {}
    cells = []
    for prop, r in res.items():
        failed = []
        for l in r.get("lines", []):
            mm = re.match(r"\s+not discharged: (\S+) \|", l)
            if mm:
                labs = re.findall(r"'((?:C\d\d\+)*C\d\d\.[\w.]+)", l)
                failed.append(mm.group(1).replace("kani::", "") + (" [" + ", ".join(labs[:2]) + "]" if labs else ""))
        verdict = {0: "MISSED (exit 0)", 1: "caught (VIOLATION)", 2: "undecided (exit 2)"}.get(r.get("exit"), "exit %s" % r.get("exit"))
        cells.append("`./check %s`: %s%s" % (prop, verdict, (" -- " + "; ".join(failed[:3])) if failed else ""))
    rows.append("| %s | %s | %s | %s | %s |" % (m["id"], m["property"], m["what"].replace("|", "/"), m.get("needs", "").replace("|", "/"),
                                            "<br>".join(cells) if cells else "not run"))
table = "\n".join([B, "", "| seed | property | change | needs to manifest | result of the checks on the patched tree |", "|---|---|---|---|---|"] + rows + ["", E])
p = os.path.join(V, "DESIGN.md")
s = open(p).read()
if B in s:
    s = s[:s.index(B)] + table + s[s.index(E) + len(E):]
else:
    s = s.rstrip("\n") + "\n\n" + table + "\n"
open(p, "w").write(s)
print(len(rows), "rows")
