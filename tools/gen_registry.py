#!/usr/bin/env python3
"""Regenerates the GENERATED section of kani/harnesses.toml from the harness sources:
one [[harness]] entry per `fn t_* / m_* / b_*` (doc comment = contract text, assertion labels
"Cxx.…" = the properties it serves) and per `h!(c18_…)` instantiation of the SOCKS reader file.
Tier / timeout / scope overrides come from kani/registry_overrides.toml (hand-written)."""
import os, re, tomllib, json
V = os.path.dirname(os.path.dirname(os.path.abspath(__file__)))
INJ = os.path.join(V, "kani", "inject")
BEGIN = "# ==== BEGIN GENERATED (tools/gen_registry.py) ===="
END = "# ==== END GENERATED ===="

FILES = [
    ("penguin-mux/task_table_verif_kani.rs", "penguin-mux", "model", "std,nohash",
     "bounded: flow ids from the concrete alphabet {0, A, B, C}, flow table of <= 4 slots (finite-map model), one bystander flow; windows, ports, counts and payload bytes symbolic"),
    ("penguin-mux/task_mux_verif_kani.rs", "penguin-mux", "model", "std,nohash",
     "bounded: scripted id generator (<= 4 draws incl. 0 and ids in use), concrete host/payload lengths; ids, ports, windows, payload bytes symbolic"),
    ("penguin-mux/bridge_verif_kani.rs", "penguin-mux", "model", "std,nohash",
     "bounded: one scripted shape of the local side per harness (<= 4 steps, chunks of 1-2 bytes); data bytes and credit symbolic; one or two polls"),
    ("penguin-mux/ping_verif_kani.rs", "penguin-mux", "model", "std,nohash,tokio-time",
     "complete over (timeout T incl. none, last-pong time, current time) in whole seconds; one tick per harness (the tick source is the tokio-time stand-in)"),
    ("penguin-socks/v5_addr_verif_kani.rs", "penguin-socks", "model", "",
     "bounded: concrete address type, length octet and chunking per instantiation; all other bytes symbolic (IPv6: two concrete addresses)"),
    ("penguin-socks/readers_verif_kani.rs", "penguin-socks", "model", "",
     "bounded: concrete field lengths and chunking per instantiation; all field contents symbolic"),
]

DEFAULT_PROPS = {"penguin-mux/bridge_verif_kani.rs": ["C13"], "penguin-mux/ping_verif_kani.rs": ["C16"]}

SOCKS_CONTRACT = [
    ("c18_s5_addr_domain", "v5::read_address on ATYP=3: returns exactly the LEN domain bytes and consumes exactly ATYP, LEN and LEN bytes (whole, byte-wise and split deliveries, with Pending points)"),
    ("c18_s5_addr_ipv4", "v5::read_address on ATYP=1: returns the dotted-quad text of the four octets (all octet values) and consumes exactly 5 bytes"),
    ("c18_s5_addr_ipv6", "v5::read_address on ATYP=4: returns the RFC 5952 text and consumes exactly 17 bytes"),
    ("c18_s5_addr_unknown_atyp", "v5::read_address on any other ATYP: AddressType error, the RFC 1928 'address type not supported' reply is written and flushed, nothing further consumed"),
    ("c18_s5_addr_truncated", "every proper prefix of an address followed by end-of-file is an error: no Ok, no panic, no endless wait"),
    ("c18_s5_req_domain", "v5::read_request on a domain-type request returns (CMD, the LEN domain bytes, PORT) and consumes exactly the request"),
    ("c18_s5_req_ipv4", "v5::read_request on an IPv4 request returns the dotted-quad text of the 4 octets, CMD and PORT, and consumes exactly 10 bytes"),
    ("c18_s5_req_ipv6", "v5::read_request on an IPv6 request returns the RFC 5952 text, CMD and PORT, and consumes exactly 22 bytes"),
    ("c18_s5_req_truncated", "every proper prefix of a SOCKS5 request followed by end-of-file is an error: no Ok, no panic, no endless wait"),
    ("c18_s5_req_bad_version", "a version octet other than 5 is rejected with SocksVersion(v), nothing written"),
    ("c18_s5_req_unknown_atyp", "an unknown ATYP is rejected with AddressType and answered with the 'address type not supported' reply, nothing further consumed"),
    ("c18_s5_auth", "v5::read_auth_methods returns exactly NMETHODS method octets and consumes 1+N bytes; truncated input is an error"),
    ("c18_s5_write", "SOCKS5 reply writers are byte-exact per RFC 1928 for every reply code, address and port, and flush"),
    ("c18_s4_req_ip", "v4::read_request on a plain SOCKS4 request (DSTIP not 0.0.0.x) returns CMD, dotted-quad DSTIP, PORT and consumes exactly up to the NUL of USERID"),
    ("c18_s4a_req_truncated", "SOCKS4a: end-of-file before the NUL of the domain name is a truncated request, never Ok"),
    ("c18_s4a_req", "v4::read_request on a SOCKS4a request (DSTIP 0.0.0.x, x != 0) returns the bytes between the two NULs as host and consumes exactly the request"),
    ("c18_s4_req_truncated_in_userid", "SOCKS4: end-of-file before the NUL of USERID is a truncated request, never Ok"),
    ("c18_s4_req_truncated", "a truncated SOCKS4 fixed header is an error"),
    ("c18_s4_write", "v4::write_response is byte-exact (VN=0, CD, six zero octets) for every code"),
]


def fn_labels(src):
    """labels asserted inside every fn of the file (name -> set of 'Cxx.label')"""
    text = "\n".join(src)
    res = {}
    for m in re.finditer(r"(?m)^(?:pub\(crate\) )?fn (\w+)(?:<[^>]*>)?\(", text):
        nxt = re.search(r"(?m)^(?:#\[|(?:pub\(crate\) )?fn |// ====)", text[m.end():])
        body = text[m.end(): m.end() + (nxt.start() if nxt else len(text))]
        labs = set()
        for ps, rest in re.findall(r'"((?:C\d\d)(?:\+C\d\d)*)\.([\w.]+)', body):
            for q in ps.split("+"):
                labs.add(q + "." + rest)
        res[m.group(1)] = (labs, set(re.findall(r"\b(\w+)(?:::<[^>]*>)?\(", body)))
    return res


def scan(path):
    src = open(path).read().split("\n")
    allfns = fn_labels(src)
    out = []
    i = 0
    while i < len(src):
        m = re.match(r"\s*fn ((?:t|m|b|p)_\w+)\(\)", src[i])
        if m:
            name = m.group(1)
            # attribute block above
            j = i - 1
            is_harness = False
            while j >= 0 and src[j].lstrip().startswith("#["):
                if "kani::proof" in src[j]:
                    is_harness = True
                j -= 1
            doc = []
            while j >= 0 and src[j].lstrip().startswith("///"):
                doc.insert(0, src[j].lstrip()[3:].strip())
                j -= 1
            # body until next top-level fn
            k = i + 1
            body = []
            while k < len(src) and not re.match(r"^(#\[|fn |pub\(crate\) fn |// ====)", src[k]):
                body.append(src[k])
                k += 1
            labels = []
            for ps, rest in re.findall(r'"((?:C\d\d)(?:\+C\d\d)*)\.([\w.]+)', "\n".join(body)):
                labels += [(q, rest) for q in ps.split("+")]
            if not labels:
                # the harness instantiates a shared contract fn: take that fn's labels
                for callee in allfns.get(name, (set(), set()))[1]:
                    if callee in allfns and callee != name:
                        labels += [tuple(l.split(".", 1)) for l in allfns[callee][0]]
            if is_harness:
                out.append(dict(name=name, doc=" ".join(doc), props=sorted({p for p, _ in labels}),
                                labels=sorted({p + "." + l for p, l in labels})))
        m = re.match(r"h!\((c18_\w+),", src[i])
        if m:
            name = m.group(1)
            c = next((t for p, t in SOCKS_CONTRACT if name.startswith(p)), "")
            out.append(dict(name=name, doc=c, props=["C18"], labels=[]))
        i += 1
    return out


def q(s):
    return json.dumps(s, ensure_ascii=False)


def main():
    ovp = os.path.join(V, "kani", "registry_overrides.toml")
    ov = tomllib.load(open(ovp, "rb")) if os.path.exists(ovp) else {}
    quick = set(ov.get("quick", []))
    per = ov.get("harness", {})
    lines = [BEGIN, "# do not edit by hand: edit the harness sources or kani/registry_overrides.toml and re-run tools/gen_registry.py"]
    n = 0
    for rel, crate, config, features, scope in FILES:
        for h in scan(os.path.join(INJ, rel)):
            o = per.get(h["name"], {})
            if o.get("skip"):
                continue
            props = o.get("props", h["props"]) or DEFAULT_PROPS.get(rel, [])
            lines += ["", "[[harness]]", "name = %s" % q(h["name"]), "crate = %s" % q(crate), "config = %s" % q(config),
                      "features = %s" % q(o.get("features", features)), "props = %s" % json.dumps(props),
                      "tier = %s" % q("quick" if h["name"] in quick else o.get("tier", "thorough")),
                      "scope = %s" % q(o.get("scope", scope)),
                      "contract = %s" % q((o.get("contract") or h["doc"] or h["name"])[:600]),
                      "timeout = %d" % o.get("timeout", 2400)]
            if o.get("allow_panic"):
                lines.append("allow_panic = true")
            n += 1
    lines += ["", END, ""]
    p = os.path.join(V, "kani", "harnesses.toml")
    s = open(p).read()
    if BEGIN in s:
        s = s[:s.index(BEGIN)] + s[s.index(END) + len(END):].lstrip("\n")
    s = s.rstrip("\n") + "\n\n" + "\n".join(lines)
    open(p, "w").write(s)
    tomllib.loads(s)
    print("generated", n, "entries")


if __name__ == "__main__":
    main()
