#!/bin/sh
# tools/kani_probe.sh <config> <harness>...   -- developer aid: one cargo-kani run per harness on a kept
# scratch copy, printing symex steps / VCCs / solver time (not used by the registered checks)
CFG=$1; shift
python3 - "$CFG" <<'PY'
import sys
sys.path.insert(0,'/verif/tools')
import kani_run as KR
KR.make_scratch(sys.argv[1])
PY
cd /tmp/verif-kani-scratch-$CFG
for h in "$@"; do
  /usr/bin/time -f "$h wall %e s maxrss %M KB" timeout ${PROBE_TIMEOUT:-600} env CARGO_NET_OFFLINE=true CARGO_TARGET_DIR=/verif/.cache/kani-target-$CFG cargo kani -p ${PROBE_CRATE:-penguin-mux} --no-default-features --features ${PROBE_FEATURES:-std,nohash} -Z stubbing -Z function-contracts --harness $h > /tmp/probe-$h.log 2>&1
  echo "== $h"; grep "size of program\|VCC\|Runtime Symex\|Runtime Solver\|VERIFICATION\|Verification Time\|^error" /tmp/probe-$h.log | head -12
done 2>&1
rm -rf /tmp/verif-kani-scratch-$CFG
