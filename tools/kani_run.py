#!/usr/bin/env python3
"""Kani leg: per-run scratch copy of /repo's working tree, add-only injection of harness
modules (cfg(kani)), run the requested harnesses, parse verdicts.

Nothing in /repo is touched.  What is added to the scratch copy is listed in
kani/inject/manifest.toml and reported in the evidence (`injections`).
"""
import fcntl
import json
import os
import re
import shutil
import subprocess
import sys
import tempfile
import time
import tomllib

VERIF = os.path.dirname(os.path.dirname(os.path.abspath(__file__)))
REPO = os.environ.get("VERIF_REPO", "/repo")
CACHE = os.environ.get("VERIF_CACHE", os.path.join(VERIF, ".cache"))

PROFILE = """
# ---- added by /verif (scratch copy only): production semantics for Kani builds
[profile.dev]
debug-assertions = false
overflow-checks = false
"""


def load_registry():
    with open(os.path.join(VERIF, "kani", "harnesses.toml"), "rb") as f:
        return tomllib.load(f)


def make_scratch(config, repo=REPO):
    """config: 'real' or 'model'. returns scratch dir (caller removes)."""
    # fixed path (so that cargo's fingerprints stay valid between runs), exclusive use by flock,
    # removed by the caller at the end of the run; file mtimes are preserved by rsync -a
    base = os.environ.get("VERIF_SCRATCH_BASE", "/tmp")
    d = os.path.join(base, "verif-kani-scratch-%s" % config)
    if os.path.exists(d):
        shutil.rmtree(d)
    os.makedirs(d)
    subprocess.check_call(["rsync", "-a", "--exclude", "target", "--exclude", ".git", repo + "/", d + "/"])
    with open(os.path.join(VERIF, "kani", "inject", "manifest.toml"), "rb") as f:
        man = tomllib.load(f)
    injections = []
    only = os.environ.get("VERIF_ONLY_INJECT")
    for inj in man.get("inject", []):
        if config not in inj.get("configs", ["real", "model"]):
            continue
        if only and not any(o in inj["src"] for o in only.split(",")):
            continue
        src = os.path.join(VERIF, "kani", "inject", inj["src"])
        dst = os.path.join(d, inj["dst"])
        os.makedirs(os.path.dirname(dst), exist_ok=True)
        shutil.copy2(src, dst)
        injections.append("add file %s" % inj["dst"])
        if inj.get("decl_in"):
            p = os.path.join(d, inj["decl_in"])
            if not os.path.exists(p):
                raise RuntimeError("anchor file %s missing" % inj["decl_in"])
            st = os.stat(p)
            with open(p, "a") as f:
                f.write("\n" + inj["decl"] + "\n")
            os.utime(p, ns=(st.st_atime_ns, st.st_mtime_ns))
            injections.append("append `%s` to %s" % (inj["decl"], inj["decl_in"]))
    for ed in man.get("attr", []):
        if config not in ed.get("configs", ["real", "model"]):
            continue
        if os.environ.get("VERIF_NO_ATTR"):
            continue
        p = os.path.join(d, ed["file"])
        s = open(p).read()
        pat = ed["before"]
        n = len(re.findall(pat, s, re.M))
        if n != 1:
            raise RuntimeError("attr anchor `%s` matches %d times in %s" % (pat, n, ed["file"]))
        s = re.sub(pat, lambda m: ed["line"] + "\n" + m.group(0), s, count=1, flags=re.M)
        st = os.stat(p)
        open(p, "w").write(s)
        os.utime(p, ns=(st.st_atime_ns, st.st_mtime_ns))
        injections.append("insert line `%s` before `%s` in %s (layout/attribute only)" % (ed["line"], pat, ed["file"]))
    # workspace Cargo.toml
    ct = os.path.join(d, "Cargo.toml")
    s = open(ct).read()
    if config == "model":
        s = re.sub(r'members = \[[^\]]*\]', 'members = ["penguin-mux", "cow-bytes", "penguin-socks"]', s, count=1)
        s = re.sub(r'default-members = \[[^\]]*\]', 'default-members = ["penguin-mux"]', s, count=1)
        s += '\n[patch.crates-io]\ntokio = { path = "%s" }\n' % os.path.join(VERIF, "kani", "tokio-model")
        injections.append("workspace reduced to penguin-mux + cow-bytes + penguin-socks; [patch.crates-io] tokio = /verif/kani/tokio-model")
        if not os.environ.get("VERIF_REAL_HASHBROWN"):
            s += 'hashbrown = { path = "%s" }\n' % os.path.join(VERIF, "kani", "hashbrown-model")
            injections.append("[patch.crates-io] hashbrown = /verif/kani/hashbrown-model (finite-map model of the flow table's container)")
        if not os.environ.get("VERIF_REAL_TRACING"):
            s += 'tracing = { path = "%s" }\n' % os.path.join(VERIF, "kani", "tracing-model")
            injections.append("[patch.crates-io] tracing = /verif/kani/tracing-model (logging compiled out: event macros expand to nothing, #[instrument] returns the fn unchanged)")
        if not os.environ.get("VERIF_REAL_PARKING_LOT"):
            s += 'parking_lot = { path = "%s" }\n' % os.path.join(VERIF, "kani", "parking_lot-model")
            injections.append("[patch.crates-io] parking_lot = /verif/kani/parking_lot-model (sequential lock model that asserts no self-deadlock)")
    # logging statically disabled (tracing's documented release knob): `max_level_off`
    s2 = s.replace('tracing = { version = "0.1", features = ["attributes"]', 'tracing = { version = "0.1", features = ["attributes", "max_level_off"]')
    if s2 == s:
        raise RuntimeError("workspace Cargo.toml: tracing dependency line not found")
    if not os.environ.get("VERIF_NO_TRACING_OFF"):
        s = s2
    injections.append("workspace dependency tracing: feature max_level_off added (logging compiled out)")
    s += PROFILE
    injections.append("[profile.dev] debug-assertions=false overflow-checks=false (release semantics)")
    st = os.stat(ct)
    open(ct, "w").write(s)
    os.utime(ct, ns=(st.st_atime_ns, st.st_mtime_ns))
    os.makedirs(os.path.join(d, ".cargo"), exist_ok=True)
    with open(os.path.join(d, ".cargo", "config.toml"), "w") as f:
        f.write("[net]\noffline = true\n")
    return d, injections


RESULT_RE = re.compile(r"^Checking harness ([\w:<>]+?)\.\.\.", re.M)


def parse_output(out):
    """returns {harness_short_name: dict(status, fails=[...], covers=..., time)}.
    Handles sequential output and the `-j` form where lines are tagged `Thread N:` and
    result blocks of different harnesses follow each other (a block is contiguous)."""
    res = {}
    cur_of_thread = {}
    blocks = []   # (harness_full, text)
    lines = out.split("\n")
    i = 0
    seq_cur = None
    buf = None
    buf_owner = None
    while i < len(lines):
        ln = lines[i]
        m = re.match(r"^(?:Thread (\d+): )?Checking harness ([^\s.]+(?:\.[^\s.]+)*?)\.\.\.\s*$", ln)
        if m:
            if buf is not None:
                blocks.append((buf_owner, "\n".join(buf)))
                buf = None
            th, name = m.group(1), m.group(2)
            if th is None:
                seq_cur = name
                buf, buf_owner = [], name
            else:
                cur_of_thread[th] = name
            i += 1
            continue
        m = re.match(r"^Thread (\d+):\s*$", ln)
        if m and m.group(1) in cur_of_thread:
            if buf is not None:
                blocks.append((buf_owner, "\n".join(buf)))
            buf, buf_owner = [], cur_of_thread[m.group(1)]
            i += 1
            continue
        if buf is not None:
            buf.append(ln)
            if ln.startswith("Verification Time:"):
                blocks.append((buf_owner, "\n".join(buf)))
                buf = None
        i += 1
    if buf is not None:
        blocks.append((buf_owner, "\n".join(buf)))
    for name, part in blocks:
        short = name.split("::")[-1]
        status = "UNKNOWN"
        m = re.search(r"VERIFICATION:- (SUCCESSFUL|FAILED)", part)
        if m:
            status = m.group(1)
        if status == "FAILED" and "Failed Checks:" not in part:
            status = "UNKNOWN"   # solver killed / out of memory / timeout: not a verdict
        fails = []
        for fm in re.finditer(r"(?m)^Failed Checks: (.*)\n File: \"([^\"]*)\", line (\d+), in (.*)$", part):
            fails.append(dict(desc=fm.group(1).strip(), file=fm.group(2), line=int(fm.group(3)), func=fm.group(4).strip()))
        for fm in re.finditer(r"(?m)^Failed Checks: (.*)$", part):
            if not any(f["desc"] == fm.group(1).strip() for f in fails):
                fails.append(dict(desc=fm.group(1).strip(), file="", line=0, func=""))
        tm = re.search(r"Verification Time: ([\d.]+)s", part)
        csum = re.search(r"\*\* (\d+) of (\d+) cover properties satisfied", part)
        chk = re.search(r"\*\* (\d+) of (\d+) failed", part)
        res[short] = dict(full=name, status=status, fails=fails, time=float(tm.group(1)) if tm else None,
                          covers=(int(csum.group(1)), int(csum.group(2))) if csum else None,
                          checks=(int(chk.group(1)), int(chk.group(2))) if chk else None,
                          unwinding_failed=any("unwinding assertion" in f["desc"] for f in fails),
                          raw=part[-6000:])
    return res


def target_dir(config):
    d = os.path.join(CACHE, "kani-target-" + config)
    os.makedirs(d, exist_ok=True)
    return d


def _wait_with_rss_watchdog(proc, timeout, mem_gb, meta):
    """wait for proc; kill any cbmc of its session whose resident set exceeds mem_gb (the harness
    then has no verdict = undecided) instead of letting the kernel OOM killer pick victims."""
    t0 = time.time()
    page = os.sysconf("SC_PAGE_SIZE")
    killed = []
    while True:
        try:
            proc.wait(timeout=2.0)
            break
        except subprocess.TimeoutExpired:
            pass
        if time.time() - t0 > timeout:
            meta["rss_killed"] = killed
            raise subprocess.TimeoutExpired(proc.args, timeout)
        try:
            sid = os.getsid(proc.pid)
        except ProcessLookupError:
            continue
        mine = []
        for pid in os.listdir("/proc"):
            if not pid.isdigit():
                continue
            try:
                with open("/proc/%s/stat" % pid) as f:
                    st = f.read()
                comm = st[st.index("(") + 1:st.rindex(")")]
                fields = st[st.rindex(")") + 2:].split()
                if comm != "cbmc" or int(fields[3]) != sid:
                    continue
                rss = int(fields[21]) * page
                if rss > mem_gb * (1 << 30):
                    os.kill(int(pid), 9)
                    killed.append((int(pid), rss >> 20))
                else:
                    mine.append((rss, int(pid)))
            except (OSError, ValueError, IndexError):
                continue
        # global guard: all solvers of this run together stay below 50 GB (kill the largest first)
        mine.sort(reverse=True)
        while mine and sum(r for r, _ in mine) > 50 * (1 << 30):
            rss, pid = mine.pop(0)
            try:
                os.kill(pid, 9)
                killed.append((pid, rss >> 20))
            except OSError:
                pass
    meta["rss_killed"] = killed


def _limit_mem(gb):
    def f():
        import resource
        lim = int(gb * (1 << 30))
        resource.setrlimit(resource.RLIMIT_AS, (lim, lim))
    return f


def run_harnesses(names, config, crate, features, jobs=8, timeout=3600, extra_args=None, playback=False, keep=False, mem_gb=None):
    """run the named harnesses (one cargo kani invocation) on a fresh scratch copy of the
    current working tree. returns (results dict, meta)"""
    t0 = time.time()
    lock = open(os.path.join(target_dir(config), ".verif-lock"), "w")
    fcntl.flock(lock, fcntl.LOCK_EX)
    scratch = None
    try:
        scratch, injections = make_scratch(config)
        meta = dict(config=config, crate=crate, scratch=scratch, injections=injections)
        cmd = ["cargo", "kani", "-p", crate, "--no-default-features"]
        if features:
            cmd += ["--features", features]
        cmd += ["-Z", "stubbing", "-Z", "function-contracts", "--output-format", os.environ.get("VERIF_OUTPUT_FORMAT", "terse") if not playback else "regular",
                "-j", str(jobs)]
        if playback:
            cmd += ["-Z", "concrete-playback", "--concrete-playback=print"]
        for n in names:
            cmd += ["--harness", n]
        cmd += extra_args or []
        if os.environ.get("VERIF_KANI_EXTRA"):
            cmd += os.environ["VERIF_KANI_EXTRA"].split()
        env = dict(os.environ)
        env["CARGO_NET_OFFLINE"] = "true"
        env["CARGO_TARGET_DIR"] = target_dir(config)
        env.pop("RUSTUP_TOOLCHAIN", None)
        meta["cmd"] = " ".join(cmd)
        logp = os.path.join(target_dir(config), "last-run.log")
        # every process of the run (each cbmc) is capped; total = jobs * cap stays below the machine's RAM
        if mem_gb is None:
            mem_gb = max(10.0, min(20.0, 52.0 / max(1, min(jobs, len(names)))))
        meta["mem_gb_per_process"] = mem_gb
        with open(logp, "w") as lf:
            proc = subprocess.Popen(cmd, cwd=scratch, env=env, stdout=lf, stderr=subprocess.STDOUT, text=True,
                                    start_new_session=True)
            try:
                _wait_with_rss_watchdog(proc, timeout, mem_gb, meta)
                meta["exit"] = proc.returncode
            except subprocess.TimeoutExpired:
                meta["exit"] = -9
                meta["timeout"] = True
                try:
                    os.killpg(proc.pid, 9)
                except ProcessLookupError:
                    pass
                proc.wait()
        out = open(logp, errors="replace").read()
        if meta.get("timeout"):
            out += "\nTIMEOUT"
        meta["output_tail"] = out[-8000:]
        meta["full_output"] = out
        res = parse_output(out)
        meta["compile_error"] = (not res) and bool(re.search(r"(?m)^error(\[E\d+\])?[: ]", out))
        meta["wall_s"] = time.time() - t0
        return res, meta
    finally:
        if scratch and not keep:
            shutil.rmtree(scratch, ignore_errors=True)
        fcntl.flock(lock, fcntl.LOCK_UN)
        lock.close()


if __name__ == "__main__":
    import argparse
    ap = argparse.ArgumentParser()
    ap.add_argument("harness", nargs="+")
    ap.add_argument("--config", default="real")
    ap.add_argument("--crate", default="penguin-mux")
    ap.add_argument("--features", default="std,nohash")
    ap.add_argument("-j", type=int, default=8)
    ap.add_argument("--playback", action="store_true")
    ap.add_argument("--timeout", type=int, default=3600)
    ap.add_argument("--mem", type=float, default=None)
    a = ap.parse_args()
    res, meta = run_harnesses(a.harness, a.config, a.crate, a.features, a.j, a.timeout, playback=a.playback, mem_gb=a.mem)
    for k, v in res.items():
        print(k, v["status"], v["time"], v["covers"], [f["desc"] + " @" + f["file"] + ":" + str(f["line"]) for f in v["fails"]])
    if not res or a.playback:
        print(meta["output_tail"])
    print("wall %.1fs exit %s rss_killed=%s" % (meta["wall_s"], meta["exit"], meta.get("rss_killed")))
