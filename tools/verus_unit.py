#!/usr/bin/env python3
"""Build one Verus file from a unit description and run Verus on it.

unit TOML keys (see verus/units/*.toml):
  name, prelude=[files], spec=[files], lemmas=[files]
  [[item]]  file, kind(enum|struct|macro|const|fn|impl_fn), name, impl, lift, generics,
            impl_as, subst=[[pat,rep,min]], sig_subst, requires=[..], ensures=[..], ret_name,
            body_prefix, loop=[{ordinal,kind,invariant,decreases,iter}], insert=[{after|before,text}],
            props=[..], spec_only (emit type only), mode
  [[probe]] name, text  -- a proof fn that must FAIL (vacuity guard)
"""
import json
import os
import re
import subprocess
import sys
import time
import tomllib

sys.path.insert(0, os.path.dirname(__file__))
import extract as X

VERIF = os.path.dirname(os.path.dirname(os.path.abspath(__file__)))
REPO = os.environ.get("VERIF_REPO", "/repo")


class Gen:
    def __init__(self, unit_path, repo=REPO):
        with open(unit_path, "rb") as f:
            self.u = tomllib.load(f)
        self.repo = repo
        self.unit_path = unit_path
        self.log = X.Log()
        self.lines = []          # output lines
        self.linemap = []        # (first_line, last_line, item_id, kind)   kind: repo|lemma|probe|prelude|spec
        self.clausemap = {}      # line -> (item_id, 'ensures'|'requires', index, text)
        self.functions = []      # dicts for evidence
        self.sources = {}

    def src(self, rel):
        if rel not in self.sources:
            p = os.path.join(self.repo, rel)
            if not os.path.exists(p):
                raise X.ExtractError("source file %s missing" % rel)
            self.sources[rel] = X.Source(p)
        return self.sources[rel]

    def emit(self, text, item_id, kind):
        first = len(self.lines) + 1
        for ln in text.split("\n"):
            self.lines.append(ln)
        self.linemap.append((first, len(self.lines), item_id, kind))
        return first

    def include(self, sub, names, kind):
        for n in names or []:
            p = os.path.join(VERIF, "verus", sub, n)
            with open(p) as f:
                self.emit("// ---- %s/%s (hand-written, %s)\n" % (sub, n, kind) + f.read(), "%s/%s" % (sub, n), kind)

    # ------------------------------------------------------------------
    def build(self):
        u = self.u
        self.include("prelude", u.get("prelude"), "prelude")
        self.emit("verus! {", "-", "prelude")
        self.include("spec", u.get("spec"), "spec")
        for it in u.get("item", []):
            self.item(it)
        self.include("lemmas", u.get("lemmas"), "lemma")
        for pr in u.get("probe", []):
            self.emit("// ---- vacuity probe (must FAIL)\n" + pr["text"], "probe:" + pr["name"], "probe")
        self.emit("} // verus!\nfn main() {}", "-", "prelude")
        return "\n".join(self.lines) + "\n"

    def item(self, it):
        s = self.src(it["file"])
        kind = it["kind"]
        iid = it.get("lift") or it.get("id") or it["name"]
        hdr = "// ---- extracted from %s: %s %s\n" % (it["file"], kind, it.get("impl", "") + " " + it["name"])
        if kind == "macro":
            d = s.find_macro(it["name"])
            txt = X.apply_subst(d["text"], it.get("subst"), iid, self.log)
            self.emit(hdr + txt, iid, "repo-macro")
            self.record(it, s, d["span"], iid, kind)
            return
        if kind == "const":
            d = s.find_const(it["name"])
            txt = re.sub(r"^\s*(pub(\([^)]*\))?\s+)?", "", d["text"])
            txt = X.apply_subst(txt, it.get("subst"), iid, self.log)
            self.emit(hdr + "pub " + txt, iid, "repo-const")
            self.record(it, s, d["span"], iid, kind)
            return
        if kind in ("enum", "struct"):
            d = s.find_type(kind, it["name"])
            attrs = X.keep_derives(d["attrs"], tuple(it.get("keep_derives", ["Clone", "Copy"])))
            self.log.add(iid, "R1 drop attributes/derives other than %s" % it.get("keep_derives", ["Clone", "Copy"]), len(d["attrs"]) - len(attrs))
            extra = it.get("attrs", [])
            if d["body"] is None and d["tuple"] is not None:
                tup = re.sub(r"^(pub(\s*\([^)]*\))?\s+)?", "pub ", d["tuple"].strip())
                tup = X.apply_subst(tup, it.get("subst"), iid, self.log)
                txt = "%s\npub struct %s%s(%s);" % ("\n".join(attrs + extra), it["name"], d["generics"], tup)
            else:
                body = d["body"]
                if kind == "struct":
                    body = X.r2_fields_pub(body, iid, self.log)
                else:
                    body2, c = re.subn(r"#\[[^\]]*\]\s*", "", X.strip_comments(body))
                    self.log.add(iid, "R1 drop variant attributes", c)
                    body = body2
                body = X.apply_subst(body, it.get("subst"), iid, self.log)
                txt = "%s\npub %s %s%s {\n%s}" % ("\n".join(attrs + extra), kind, it["name"], d["generics"], body)
            self.log.add(iid, "R2 item visibility -> pub", 1)
            self.emit(hdr + txt, iid, "repo-type")
            self.record(it, s, d["span"], iid, kind)
            return
        # functions
        if kind == "impl_fn":
            impls = s.find_impl(it["impl"])
            starts = []
            for (a, k, c) in impls:
                try:
                    starts += s.find_fn(it["name"], (k, c))
                except X.ExtractError:
                    pass
            if len(starts) != 1:
                raise X.ExtractError("impl `%s` fn `%s`: %d candidates" % (it["impl"], it["name"], len(starts)))
            start = starts[0]
        else:
            hs = s.find_fn(it["name"])
            if len(hs) != 1:
                raise X.ExtractError("fn `%s`: %d candidates in %s" % (it["name"], len(hs), it["file"]))
            start = hs[0]
        p = s.fn_parts(start)
        body = p["body"]
        body = X.r1_attrs(body, iid, self.log)
        body = X.r7_anchors(body, it.get("insert"), iid, self.log)
        body = X.r7_loop_hints(body, it.get("loop"), iid, self.log)
        SEP = "\n/*@@SEP@@*/\n"
        params, ret = p["params"], p["ret"] or ""
        if "sig_subst" in it:
            sg = X.apply_subst(params + SEP + ret, it["sig_subst"], iid, self.log, "R3/R5 substitution (signature)")
            params, ret = sg.split(SEP)
            body = X.apply_subst(body, it.get("subst"), iid, self.log)
        else:
            al = X.apply_subst(params + SEP + ret + SEP + body, it.get("subst"), iid, self.log)
            params, ret, body = al.split(SEP)
        params = re.sub(r"#\[[^\]]*\]\s*", "", params)
        generics = it.get("generics", p["generics"])
        fname = it.get("lift") or p["name"]
        if it.get("lift"):
            self.log.add(iid, "R3 lifted trait-impl/method to free fn `%s`" % fname, 1)
        rn = it.get("ret_name", "r")
        sig = "pub fn %s%s(%s)" % (fname, generics, X.norm_ws(params))
        if ret:
            sig += " -> (%s: %s)" % (rn, ret)
        where = it.get("where", p["where"])
        out = [hdr.rstrip("\n")] + list(it.get("attrs_fn", [])) + [sig]
        if where:
            out.append("    " + where)
        clause_lines = []
        def clauses(key):
            cl = it.get(key) or []
            if cl:
                out.append("    %s" % key)
                for i, c in enumerate(cl):
                    c1 = X.norm_ws(c)
                    out.append("        %s," % c1)
                    clause_lines.append((len(out) - 1, key, i, c1))
        clauses("requires")
        clauses("ensures")
        if it.get("decreases"):
            out.append("    decreases %s," % it["decreases"])
        if it.get("no_unwind", False):
            out.append("    no_unwind")
        out.append("{")
        if it.get("body_prefix"):
            out.append("    " + it["body_prefix"])
            self.log.add(iid, "R7 ghost text at body start", 1)
        out.append(body.rstrip())
        out.append("}")
        text = "\n".join(out)
        wrap_open = wrap_close = ""
        if it.get("impl_as"):
            wrap_open = "impl%s %s {\n" % (it.get("impl_generics", ""), it["impl_as"])
            wrap_close = "\n}"
            text = wrap_open + text + wrap_close
        first = self.emit(text, iid, "repo-fn")
        off = first + (1 if wrap_open else 0)
        for (idx, key, i, c1) in clause_lines:
            self.clausemap[off + idx] = (iid, key, i, c1)
        self.record(it, s, p["span"], iid, kind, body_sha=X.sha(p["body"]))

    def record(self, it, s, span, iid, kind, body_sha=None):
        self.functions.append(dict(
            id=iid, kind=kind, file=it["file"], name=(it.get("impl", "") + " " + it["name"]).strip(),
            lines="%d-%d" % (s.line_of(span[0]), s.line_of(span[1] - 1)),
            sha256=X.sha(s.text[span[0]:span[1]]), props=it.get("props", []),
            requires=it.get("requires", []), ensures=it.get("ensures", [])))

    # ------------------------------------------------------------------
    def owner(self, line):
        for (a, b, iid, kind) in self.linemap:
            if a <= line <= b:
                return iid, kind
        return None, None


CONTRACT_MSGS = (
    "postcondition not satisfied", "precondition not satisfied", "assertion failed",
    "invariant not satisfied", "possible arithmetic underflow/overflow", "possible division by zero",
    "loop invariant", "decreases not satisfied", "could not prove termination", "possible bit shift",
    "unreachable", "index out of bounds", "recommendation not met", "value may be out of range",
    "possible truncation", "failed this",
)


def classify(msg):
    ml = msg.lower()
    if "rlimit" in ml or "resource limit" in ml or "timed out" in ml or "timeout" in ml:
        return "limit"
    for k in CONTRACT_MSGS:
        if k in ml:
            return "contract"
    return "tool"


def run_unit(unit_path, outdir, repo=REPO, rlimit=None, threads=None, keep=True):
    """returns dict(status, unit, obligations=[...], failures=[...], probes_ok, time_s, file, trusted, rewrites, functions)
    status: ok | contract_failed | undecided"""
    t0 = time.time()
    name = os.path.splitext(os.path.basename(unit_path))[0]
    res = dict(unit=name, status="undecided", reason="", obligations=[], failures=[], tool_errors=[],
               functions=[], rewrites=[], trusted=[], file=None, time_s=0.0, verus_ms=None)
    try:
        g = Gen(unit_path, repo)
        text = g.build()
    except X.ExtractError as e:
        res["reason"] = "extraction: %s" % e
        res["time_s"] = time.time() - t0
        return res
    os.makedirs(outdir, exist_ok=True)
    path = os.path.join(outdir, name + ".rs")
    with open(path, "w") as f:
        f.write(text)
    res["file"] = path
    res["functions"] = g.functions
    res["rewrites"] = g.log.entries
    res["trusted"] = scan_trusted(text, g)
    cmd = ["verus", path, "--output-json", "--time", "--multiple-errors", "20", "--error-format=json"]
    if rlimit:
        cmd += ["--rlimit", str(rlimit)]
    if threads:
        cmd += ["--num-threads", str(threads)]
    res["cmd"] = " ".join(cmd)
    pr = subprocess.run(cmd, capture_output=True, text=True, cwd=outdir)
    try:
        js = json.loads(pr.stdout)
    except Exception:
        js = None
    diags = []
    for ln in pr.stderr.splitlines():
        ln = ln.strip()
        if ln.startswith("{"):
            try:
                diags.append(json.loads(ln))
            except Exception:
                pass
    res["stderr_tail"] = "\n".join(d.get("rendered", "") for d in diags if d.get("level") == "error")[-6000:]
    if js is None:
        res["reason"] = "verus produced no JSON (exit %d): %s" % (pr.returncode, pr.stderr[-2000:])
        res["time_s"] = time.time() - t0
        return res
    vr = js.get("verification-results", {})
    res["verus_ms"] = js.get("times-ms", {}).get("total")
    res["smt_ms"] = js.get("times-ms", {}).get("smt", {}).get("smt-run")
    # per function success
    fsucc = {}
    ftime = {}
    for mt in js.get("times-ms", {}).get("smt", {}).get("smt-run-module-times", []):
        for fb in mt.get("function-breakdown", []):
            fn = fb["function"].split("::")[-1]
            full = fb["function"]
            fsucc[full] = fsucc.get(full, True) and fb.get("success", False)
            ftime[full] = ftime.get(full, 0) + fb.get("time-micros", 0)
    # error diagnostics -> owners
    probe_failed = set()
    fail_by_item = {}
    tool_errs = []
    for d in diags:
        if d.get("level") != "error":
            continue
        msg = d.get("message", "")
        if msg.startswith("aborting due to"):
            continue
        spans = d.get("spans", [])
        prim = [s for s in spans if s.get("is_primary")] or spans
        line = prim[0]["line_start"] if prim else 0
        # owner: use any span that falls into a repo-fn/lemma/probe region; prefer the item containing the primary
        owner, okind = g.owner(line)
        cls = classify(msg + " " + " ".join((s.get("label") or "") for s in spans))
        if d.get("code"):
            cls = "tool"   # rustc error code: type/resolve error, never a verification result
        clause = None
        for s in spans:
            for L in range(s["line_start"], s["line_end"] + 1):
                if L in g.clausemap:
                    clause = g.clausemap[L]
        if clause and (owner is None or okind in ("prelude", "spec")):
            owner, okind = clause[0], "repo-fn"
        if okind == "probe":
            probe_failed.add(owner)
            continue
        if cls == "contract" and okind in ("repo-fn", "lemma"):
            # a precondition failure is reported at the call site: owner is the caller (line of call)
            fail_by_item.setdefault(owner, []).append(dict(
                message=msg, line=line, clause=(clause[1] + "[%d]: %s" % (clause[2], clause[3])) if clause else None,
                kind=okind, rendered=d.get("rendered", "")[:1500]))
        elif cls == "limit":
            tool_errs.append("resource limit in %s: %s" % (owner, msg))
        else:
            tool_errs.append("%s (line %d, %s)" % (msg, line, owner))
    res["tool_errors"] = tool_errs
    probes = [pr_["name"] for pr_ in g.u.get("probe", [])]
    # obligations: every repo fn with a contract or a body = 1 obligation per ensures clause (+1 for body safety)
    obligations = []
    for it in g.u.get("item", []):
        if it["kind"] not in ("fn", "impl_fn"):
            continue
        iid = it.get("lift") or it.get("id") or it["name"]
        fails = fail_by_item.get(iid, [])
        ens = it.get("ensures") or []
        base = dict(unit=name, item=iid, file=it["file"], props=it.get("props", []), verifier="verus", backend="z3",
                    twin=it.get("twin"), scope="unbounded")
        failed_clauses = set()
        other_fail = []
        for f in fails:
            if f["clause"] and f["clause"].startswith("ensures["):
                failed_clauses.add(int(f["clause"][8:f["clause"].index("]")]))
            else:
                other_fail.append(f)
        for i, c in enumerate(ens):
            obligations.append(dict(base, id="%s::%s::ensures[%d]" % (name, iid, i), text=X.norm_ws(c),
                                    ok=(i not in failed_clauses),
                                    detail=[f for f in fails if f["clause"] and f["clause"].startswith("ensures[%d]" % i)]))
        obligations.append(dict(base, id="%s::%s::body-safe" % (name, iid),
                                text="callee preconditions, no overflow/panic, loop invariants, termination",
                                ok=(not other_fail), detail=other_fail))
    if g.u.get("lemma_only"):
        # obligations = the proof fns of the lemma files (they do not read /repo: a failure is a framework defect)
        for full, okf in sorted(fsucc.items()):
            fn = full.split("::")[-1]
            if fn.startswith("probe_"):
                continue
            obligations.append(dict(unit=name, item=fn, file="/verif/verus/lemmas", props=g.u.get("lemma_props", []),
                                    verifier="verus", backend="z3", twin=None, scope="unbounded (layer-B lemma over step contracts)",
                                    id="%s::%s" % (name, fn), text="lemma %s" % fn, ok=bool(okf), detail=[]))
    lemma_fail = [k for k, v in fail_by_item.items() if any(f["kind"] == "lemma" for f in v)]
    res["obligations"] = obligations
    res["failures"] = [o for o in obligations if not o["ok"]]
    res["lemma_failures"] = lemma_fail
    res["fn_times_us"] = ftime
    res["verified_count"] = vr.get("verified")
    res["error_count"] = vr.get("errors")
    res["time_s"] = time.time() - t0
    missing_probe = [p for p in probes if ("probe:" + p) not in probe_failed]
    if vr.get("encountered-vir-error") or tool_errs:
        res["status"] = "undecided"
        res["reason"] = "tool/unsupported/limit: " + "; ".join(tool_errs[:5]) + ("" if tool_errs else pr.stderr[-1500:])
    elif missing_probe:
        res["status"] = "undecided"
        res["reason"] = "vacuity probe(s) verified (unit is broken): %s" % missing_probe
    elif lemma_fail:
        res["status"] = "undecided"
        res["reason"] = "hand-written lemma failed (framework defect, not a code defect): %s" % lemma_fail
    elif res["failures"]:
        res["status"] = "contract_failed"
    else:
        expected_errors = len(probes)
        if vr.get("errors", 0) > expected_errors and not res["failures"]:
            res["status"] = "undecided"
            res["reason"] = "verus reports %s errors that could not be attributed" % vr.get("errors")
        elif not obligations:
            res["status"] = "undecided"
            res["reason"] = "zero obligations generated"
        else:
            res["status"] = "ok"
    if not keep and res["status"] == "ok":
        pass
    return res


def scan_trusted(text, g):
    out = []
    for i, ln in enumerate(text.split("\n"), 1):
        for key in ("external_body", "assume_specification", "admit(", "assume(", "#[verifier::external", "uninterp spec fn", "axiom"):
            if key in ln and not ln.strip().startswith("//"):
                owner, kind = g.owner(i)
                out.append("%s: %s [%s]" % (owner, X.norm_ws(ln)[:140], key))
                break
    return out


if __name__ == "__main__":
    import argparse
    ap = argparse.ArgumentParser()
    ap.add_argument("unit")
    ap.add_argument("--out", default="/tmp/verif-verus-out")
    ap.add_argument("--repo", default=REPO)
    ap.add_argument("--gen-only", action="store_true")
    a = ap.parse_args()
    up = a.unit if os.path.exists(a.unit) else os.path.join(VERIF, "verus", "units", a.unit + ".toml")
    if a.gen_only:
        g = Gen(up, a.repo)
        os.makedirs(a.out, exist_ok=True)
        p = os.path.join(a.out, os.path.splitext(os.path.basename(up))[0] + ".rs")
        open(p, "w").write(g.build())
        print(p)
        sys.exit(0)
    r = run_unit(up, a.out, a.repo)
    print(json.dumps({k: v for k, v in r.items() if k not in ("functions", "rewrites", "obligations", "trusted", "fn_times_us")}, indent=1)[:6000])
    print("status:", r["status"], r["reason"])
    print("obligations: %d, failed: %d, time %.1fs" % (len(r["obligations"]), len(r["failures"]), r["time_s"]))
    for f in r["failures"]:
        print("  FAILED", f["id"], "|", f["text"])
        for d in f["detail"]:
            print("     ", d["message"], "line", d["line"])
