#!/usr/bin/env python3
"""validate MANIFEST.json and evidence/*.json against the schemas (run with python3-vt)."""
import glob, json, sys
import jsonschema
ok = True
m = json.load(open('/verif/MANIFEST.json'))
jsonschema.validate(m, json.load(open('/root/.vp/MANIFEST.schema.json')))
es = json.load(open('/root/.vp/EVIDENCE.schema.json'))
for p in sorted(glob.glob('/verif/evidence/*.json')):
    try:
        jsonschema.validate(json.load(open(p)), es)
        print("ok", p)
    except Exception as e:
        ok = False
        print("INVALID", p, str(e)[:300])
ids = {c['property_id'] for c in m['checks']} | {n['property_id'] for n in m.get('not_applicable', [])}
print("covered:", sorted(ids))
sys.exit(0 if ok else 1)
