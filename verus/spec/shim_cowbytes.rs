// TRUSTED SHIM: `cow_bytes::CowBytes` / `bytes::Buf` as a byte sequence.
// Assumed contract of the dependency; cross-checked against the real crates by
// the Kani harnesses `shim_*` (bounded lengths).
#[verifier::external_body]
pub struct CowBytes<'data> {
    _p: core::marker::PhantomData<&'data [u8]>,
}

impl<'data> View for CowBytes<'data> {
    type V = Seq<u8>;
    uninterp spec fn view(&self) -> Seq<u8>;
}

pub open spec fn be16(s: Seq<u8>, i: int) -> int {
    s[i] as int * 256 + s[i + 1] as int
}

pub open spec fn be32(s: Seq<u8>, i: int) -> int {
    s[i] as int * 16777216 + s[i + 1] as int * 65536 + s[i + 2] as int * 256 + s[i + 3] as int
}

impl<'data> CowBytes<'data> {
    // bytes::Buf::remaining
    #[verifier::external_body]
    pub fn remaining(&self) -> (r: usize)
        ensures r == self@.len(),
    { unimplemented!() }

    #[verifier::external_body]
    pub fn len(&self) -> (r: usize)
        ensures r == self@.len(),
    { unimplemented!() }

    #[verifier::external_body]
    pub fn is_empty(&self) -> (r: bool)
        ensures r == (self@.len() == 0),
    { unimplemented!() }

    // bytes::Buf::get_u8 -- panics (panic_advance) when nothing remains: precondition
    #[verifier::external_body]
    pub fn get_u8(&mut self) -> (r: u8)
        requires old(self)@.len() >= 1,
        ensures r == old(self)@[0], final(self)@ == old(self)@.subrange(1, old(self)@.len() as int),
    { unimplemented!() }

    #[verifier::external_body]
    pub fn get_u16(&mut self) -> (r: u16)
        requires old(self)@.len() >= 2,
        ensures r as int == be16(old(self)@, 0), final(self)@ == old(self)@.subrange(2, old(self)@.len() as int),
    { unimplemented!() }

    #[verifier::external_body]
    pub fn get_u32(&mut self) -> (r: u32)
        requires old(self)@.len() >= 4,
        ensures r as int == be32(old(self)@, 0), final(self)@ == old(self)@.subrange(4, old(self)@.len() as int),
    { unimplemented!() }

    // CowBytes::split_to -- panics when at > len: precondition
    #[verifier::external_body]
    pub fn split_to(&mut self, at: usize) -> (r: CowBytes<'data>)
        requires at <= old(self)@.len(),
        ensures r@ == old(self)@.subrange(0, at as int),
                final(self)@ == old(self)@.subrange(at as int, old(self)@.len() as int),
    { unimplemented!() }

    #[verifier::external_body]
    pub fn split_off(&mut self, at: usize) -> (r: CowBytes<'data>)
        requires at <= old(self)@.len(),
        ensures final(self)@ == old(self)@.subrange(0, at as int),
                r@ == old(self)@.subrange(at as int, old(self)@.len() as int),
    { unimplemented!() }

    #[verifier::external_body]
    pub fn truncate(&mut self, len: usize)
        requires len <= old(self)@.len(),
        ensures final(self)@ == old(self)@.subrange(0, len as int),
    { unimplemented!() }

    // bytes::Buf::advance
    #[verifier::external_body]
    pub fn advance(&mut self, cnt: usize)
        requires cnt <= old(self)@.len(),
        ensures final(self)@ == old(self)@.subrange(cnt as int, old(self)@.len() as int),
    { unimplemented!() }

    // bytes::Buf::chunk (contiguous: the whole remainder)
    #[verifier::external_body]
    pub fn chunk(&self) -> (r: &[u8])
        ensures r@ == self@,
    { unimplemented!() }

    #[verifier::external_body]
    pub fn as_ref(&self) -> (r: &[u8])
        ensures r@ == self@,
    { unimplemented!() }
}

// `bytes::Bytes` (owned variant payload)
#[verifier::external_body]
pub struct Bytes {
    _p: core::marker::PhantomData<u8>,
}

impl View for Bytes {
    type V = Seq<u8>;
    uninterp spec fn view(&self) -> Seq<u8>;
}

impl<'data> CowBytes<'data> {
    // enum constructors of the real type, as associated functions of the shim
    #[verifier::external_body]
    pub const fn Temporary(d: &'data [u8]) -> (r: CowBytes<'data>)
        ensures r@ == d@,
    { unimplemented!() }

    #[verifier::external_body]
    pub const fn Static(b: Bytes) -> (r: CowBytes<'data>)
        ensures r@ == b@,
    { unimplemented!() }
}

// concatenation of the byte views of a chunk list (used by PushPayload::Vectored and LongChain)
pub open spec fn flat(v: Seq<CowBytes>) -> Seq<u8>
    decreases v.len(),
{
    if v.len() == 0 { Seq::<u8>::empty() } else { flat(v.drop_last()) + v.last()@ }
}

