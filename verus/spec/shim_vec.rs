// TRUSTED SHIM: `bytes::BufMut for Vec<u8>` (big-endian appends) and `Vec::<u8>::extend(&[u8])`.
pub trait BufMut {
    fn put_u8(&mut self, n: u8);
    fn put_u16(&mut self, n: u16);
    fn put_u32(&mut self, n: u32);
}

impl BufMut for Vec<u8> {
    #[verifier::external_body]
    fn put_u8(&mut self, n: u8)
        ensures final(self)@ == old(self)@ + seq![n],
    { unimplemented!() }

    #[verifier::external_body]
    fn put_u16(&mut self, n: u16)
        ensures final(self)@ == old(self)@ + u16_be(n),
    { unimplemented!() }

    #[verifier::external_body]
    fn put_u32(&mut self, n: u32)
        ensures final(self)@ == old(self)@ + u32_be(n),
    { unimplemented!() }
}

// `<Vec<T, A> as Extend<&'a T>>::extend(&mut v, iter)` appends the items the iterator yields.
// The generic form is what `assume_specification` demands; `iter_items` is uninterpreted and is
// given a meaning only for `&[u8]` (a slice yields its elements in order).
pub uninterp spec fn iter_items<T, I>(i: I) -> Seq<T>;

pub assume_specification<'a, T: Copy + 'a, A: core::alloc::Allocator, I: IntoIterator<Item = &'a T>>
    [ <Vec<T, A> as Extend<&'a T>>::extend::<I> ](v: &mut Vec<T, A>, iter: I)
    ensures final(v)@ == old(v)@ + iter_items::<T, I>(iter);

pub broadcast axiom fn axiom_iter_items_slice_u8(s: &[u8])
    ensures #[trigger] iter_items::<u8, &[u8]>(s) == s@;
