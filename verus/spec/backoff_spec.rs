// SPEC for C19 (generator clause): delays of min(initial * mult^k, max) for the k-th consecutive
// failure, restart from the shortest delay after reset, give up after max_count values (never if 0).
pub open spec fn pow_nat(b: nat, k: nat) -> nat
    decreases k,
{
    if k == 0 { 1 } else { b * pow_nat(b, (k - 1) as nat) }
}

// closed form of the k-th value produced since new()/reset()
pub open spec fn backoff_value(initial: nat, max: nat, mult: nat, k: nat) -> nat {
    min_nat(initial * pow_nat(mult, k), max)
}

// abstract state after k advances since new()/reset(): the pending `current`
pub open spec fn backoff_current(initial: nat, max: nat, mult: nat, k: nat) -> nat
    decreases k,
{
    if k == 0 { initial } else { min_nat(backoff_current(initial, max, mult, (k - 1) as nat), max) * mult }
}
