// TRUSTED SHIM for hashmap.rs: the map is any type with a `contains_key` whose result is its
// abstract key set; the random generator is any source of u32 values (no distribution assumed:
// the contract must hold for every sequence a generator can produce).
pub trait MapLike {
    spec fn has(&self, k: u32) -> bool;
    fn contains_key(&self, k: &u32) -> (r: bool)
        ensures r == self.has(*k);
}

pub trait RngLike {
    fn random_u32(&mut self) -> u32;
}
