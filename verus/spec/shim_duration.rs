// TRUSTED SHIM: `core::time::Duration` as a number of nanoseconds (R5(c): the extracted text's
// `Duration` is substituted by `Dur`). Assumed contract of std; the Kani twins run on the real type.
use vstd::std_specs::ops::{MulSpec, MulSpecImpl};

#[verifier::external_body]
#[derive(Clone, Copy)]
pub struct Dur {
    _n: u128,
}

pub open spec fn dur_max_ns() -> nat {
    (18446744073709551615 * 1000000000 + 999999999) as nat
}

impl Dur {
    pub uninterp spec fn ns(self) -> nat;
}

pub uninterp spec fn dur_of(n: nat) -> Dur;

pub broadcast axiom fn axiom_dur_range(d: Dur)
    ensures #[trigger] d.ns() <= dur_max_ns(), dur_of(d.ns()) == d;

pub broadcast axiom fn axiom_dur_of(n: nat)
    requires n <= dur_max_ns(),
    ensures #[trigger] dur_of(n).ns() == n;

pub open spec fn min_nat(a: nat, b: nat) -> nat { if a <= b { a } else { b } }

impl Dur {
    // Ord::min: the smaller one (the first if equal)
    #[verifier::external_body]
    pub fn min(self, other: Dur) -> (r: Dur)
        ensures r.ns() == min_nat(self.ns(), other.ns()), r == (if other.ns() < self.ns() { other } else { self }),
    { unimplemented!() }

    #[verifier::external_body]
    pub fn is_zero(&self) -> (r: bool)
        ensures r == (self.ns() == 0),
    { unimplemented!() }
}

impl core::ops::Mul<u32> for Dur {
    type Output = Dur;
    // Duration * u32 panics on overflow: `mul_req` below is the precondition
    #[verifier::external_body]
    fn mul(self, rhs: u32) -> Dur { unimplemented!() }
}

impl MulSpecImpl<u32> for Dur {
    open spec fn obeys_mul_spec() -> bool { true }
    open spec fn mul_req(self, rhs: u32) -> bool { self.ns() * rhs as nat <= dur_max_ns() }
    open spec fn mul_spec(self, rhs: u32) -> Dur { dur_of(self.ns() * rhs as nat) }
}
