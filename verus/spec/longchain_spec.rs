// SPEC for cow_bytes::LongChain: the abstract value is the concatenation of the chunks;
// well-formedness = cached length agrees with the contents and no chunk is empty (Buf contract).
impl<'a> LongChain<'a> {
    pub open spec fn bytes(&self) -> Seq<u8> {
        flat(self.data@)
    }

    pub open spec fn wf(&self) -> bool {
        &&& self.total_remaining_len == flat(self.data@).len()
        &&& forall|i: int| 0 <= i < self.data@.len() ==> (#[trigger] self.data@[i])@.len() > 0
    }
}

pub open spec fn all_nonempty(v: Seq<CowBytes>) -> bool {
    forall|i: int| 0 <= i < v.len() ==> (#[trigger] v[i])@.len() > 0
}

pub open spec fn min_int(a: int, b: int) -> int { if a <= b { a } else { b } }

// `<Vec<T> as Extend<T>>::extend(&mut v, other: Vec<T>)` appends the elements of `other`
pub uninterp spec fn into_iter_items<T, I>(i: I) -> Seq<T>;

pub assume_specification<T, A: core::alloc::Allocator, I: IntoIterator<Item = T>>
    [ <Vec<T, A> as Extend<T>>::extend::<I> ](v: &mut Vec<T, A>, iter: I)
    ensures final(v)@ == old(v)@ + into_iter_items::<T, I>(iter);

pub broadcast axiom fn axiom_into_iter_items_vec<'a>(s: Vec<CowBytes<'a>>)
    ensures #[trigger] into_iter_items::<CowBytes<'a>, Vec<CowBytes<'a>>>(s) == s@;
