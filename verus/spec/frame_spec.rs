// SPEC (hand-written from PROTOCOL.md "Data Framing"; arithmetic with / and %, no bit tricks
// shared with the code). FrameV is the abstract frame; valid/dec/enc are the wire format.
pub enum PayloadV {
    Connect { rwnd: u32, port: u16, host: Seq<u8> },
    Acknowledge { n: u32 },
    Reset,
    Finish,
    Push { data: Seq<u8> },
    Bind { btype: u8, port: u16, host: Seq<u8> },
    Datagram { port: u16, host: Seq<u8>, data: Seq<u8> },
}

pub struct FrameV {
    pub id: u32,
    pub payload: PayloadV,
}

pub open spec fn spec_ver(b: u8) -> int { b as int / 16 }
pub open spec fn spec_op(b: u8) -> int { b as int % 16 }

// PROTOCOL.md: Ver 4 bits (0x07; 0 is the documented lenient form), Op 4 bits 0..6,
// Flow ID 4 bytes, then the per-opcode fields with their minimum lengths.
pub open spec fn valid(s: Seq<u8>) -> bool {
    &&& s.len() >= 5
    &&& (spec_ver(s[0]) == 7 || spec_ver(s[0]) == 0)
    &&& spec_op(s[0]) <= 6
    &&& (spec_op(s[0]) == 0 ==> s.len() >= 5 + 4 + 2)
    &&& (spec_op(s[0]) == 1 ==> s.len() >= 5 + 4)
    &&& (spec_op(s[0]) == 5 ==> s.len() >= 5 + 1 + 2 && (s[5] == 1 || s[5] == 3))
    &&& (spec_op(s[0]) == 6 ==> s.len() >= 5 + 1 + 2 && s.len() >= 5 + 1 + 2 + s[5] as int)
}

pub open spec fn dec(s: Seq<u8>) -> FrameV {
    let n = s.len() as int;
    let op = spec_op(s[0]);
    FrameV {
        id: be32(s, 1) as u32,
        payload: if op == 0 {
            PayloadV::Connect { rwnd: be32(s, 5) as u32, port: be16(s, 9) as u16, host: s.subrange(11, n) }
        } else if op == 1 {
            PayloadV::Acknowledge { n: be32(s, 5) as u32 }
        } else if op == 2 {
            PayloadV::Reset
        } else if op == 3 {
            PayloadV::Finish
        } else if op == 4 {
            PayloadV::Push { data: s.subrange(5, n) }
        } else if op == 5 {
            PayloadV::Bind { btype: s[5], port: be16(s, 6) as u16, host: s.subrange(8, n) }
        } else {
            PayloadV::Datagram {
                port: be16(s, 6) as u16,
                host: s.subrange(8, 8 + s[5] as int),
                data: s.subrange(8 + s[5] as int, n),
            }
        },
    }
}

pub open spec fn u16_be(x: u16) -> Seq<u8> {
    seq![(x as int / 256) as u8, (x as int % 256) as u8]
}

pub open spec fn u32_be(x: u32) -> Seq<u8> {
    seq![(x as int / 16777216) as u8, ((x as int / 65536) % 256) as u8, ((x as int / 256) % 256) as u8, (x as int % 256) as u8]
}

pub open spec fn op_of(p: PayloadV) -> int {
    match p {
        PayloadV::Connect { .. } => 0,
        PayloadV::Acknowledge { .. } => 1,
        PayloadV::Reset => 2,
        PayloadV::Finish => 3,
        PayloadV::Push { .. } => 4,
        PayloadV::Bind { .. } => 5,
        PayloadV::Datagram { .. } => 6,
    }
}

pub open spec fn hdr(op: int, id: u32) -> Seq<u8> {
    seq![(7 * 16 + op) as u8] + u32_be(id)
}

// the sender always writes version 7; fields in wire order (PROTOCOL.md), `+` associates to the left
pub open spec fn enc(f: FrameV) -> Seq<u8> {
    match f.payload {
        PayloadV::Connect { rwnd, port, host } => hdr(0, f.id) + u32_be(rwnd) + u16_be(port) + host,
        PayloadV::Acknowledge { n } => hdr(1, f.id) + u32_be(n),
        PayloadV::Reset => hdr(2, f.id),
        PayloadV::Finish => hdr(3, f.id),
        PayloadV::Push { data } => hdr(4, f.id) + data,
        PayloadV::Bind { btype, port, host } => hdr(5, f.id) + seq![btype] + u16_be(port) + host,
        PayloadV::Datagram { port, host, data } => hdr(6, f.id) + seq![host.len() as u8] + u16_be(port) + host + data,
    }
}

pub open spec fn payload_len_spec(p: PayloadV) -> nat {
    match p {
        PayloadV::Connect { rwnd, port, host } => 4 + 2 + host.len(),
        PayloadV::Acknowledge { n } => 4,
        PayloadV::Reset => 0,
        PayloadV::Finish => 0,
        PayloadV::Push { data } => data.len(),
        PayloadV::Bind { btype, port, host } => 1 + 2 + host.len(),
        PayloadV::Datagram { port, host, data } => 1 + 2 + host.len() + data.len(),
    }
}

// frames the public constructors can build: bind type 1 or 3; encodable: datagram host <= 255
pub open spec fn constructible(f: FrameV) -> bool {
    match f.payload {
        PayloadV::Bind { btype, .. } => btype == 1 || btype == 3,
        PayloadV::Datagram { host, .. } => host.len() <= 255,
        _ => true,
    }
}

// ---- abstraction of the extracted (real) datatypes -------------------------------------
pub open spec fn push_view(p: PushPayload) -> Seq<u8> {
    match p {
        PushPayload::Single(d) => d@,
        PushPayload::Vectored(v) => flat(v@),
    }
}

pub open spec fn bind_type_code(b: BindType) -> u8 {
    match b { BindType::Stream => 1u8, BindType::Datagram => 3u8 }
}

pub open spec fn payload_view(p: Payload) -> PayloadV {
    match p {
        Payload::Connect(c) => PayloadV::Connect { rwnd: c.rwnd, port: c.target_port, host: c.target_host@ },
        Payload::Acknowledge(n) => PayloadV::Acknowledge { n },
        Payload::Reset => PayloadV::Reset,
        Payload::Finish => PayloadV::Finish,
        Payload::Push(d) => PayloadV::Push { data: push_view(d) },
        Payload::Bind(b) => PayloadV::Bind { btype: bind_type_code(b.bind_type), port: b.target_port, host: b.target_host@ },
        Payload::Datagram(d) => PayloadV::Datagram { port: d.target_port, host: d.target_host@, data: d.data@ },
    }
}

pub open spec fn frame_view(f: Frame) -> FrameV {
    FrameV { id: f.id, payload: payload_view(f.payload) }
}

pub open spec fn spec_opcode(v: u8) -> Result<OpCode, Error> {
    if spec_ver(v) != 7 && spec_ver(v) != 0 {
        Err(Error::FrameVersion((v as int / 16) as u8))
    } else if spec_op(v) == 0 { Ok(OpCode::Connect) }
    else if spec_op(v) == 1 { Ok(OpCode::Acknowledge) }
    else if spec_op(v) == 2 { Ok(OpCode::Reset) }
    else if spec_op(v) == 3 { Ok(OpCode::Finish) }
    else if spec_op(v) == 4 { Ok(OpCode::Push) }
    else if spec_op(v) == 5 { Ok(OpCode::Bind) }
    else if spec_op(v) == 6 { Ok(OpCode::Datagram) }
    else { Err(Error::InvalidOpCode((v as int % 16) as u8)) }
}

pub open spec fn opcode_num(o: OpCode) -> int {
    match o {
        OpCode::Connect => 0, OpCode::Acknowledge => 1, OpCode::Reset => 2, OpCode::Finish => 3,
        OpCode::Push => 4, OpCode::Bind => 5, OpCode::Datagram => 6,
    }
}
