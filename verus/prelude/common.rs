#![feature(allocator_api)]
#![allow(unused_imports, dead_code, unused_variables, unused_mut, unused_macros, unused_parens, unused_assignments)]
#![allow(non_snake_case, unreachable_code, unused_braces)]
use vstd::prelude::*;
use core::mem::size_of;
// R4: logging and debug-only assertions are bound to nothing; the code text keeps them.
macro_rules! trace { ($($t:tt)*) => {}; }
macro_rules! debug { ($($t:tt)*) => {}; }
macro_rules! info { ($($t:tt)*) => {}; }
macro_rules! warn { ($($t:tt)*) => {}; }
macro_rules! error { ($($t:tt)*) => {}; }
macro_rules! debug_assert { ($($t:tt)*) => {}; }
macro_rules! debug_assert_eq { ($($t:tt)*) => {}; }
// assert!/assert_eq!/unreachable! are panics: reaching one is a proof obligation (`unreached` requires false).
macro_rules! assert_eq { ($a:expr, $b:expr $(, $($t:tt)*)?) => { if !($a == $b) { vstd::pervasive::unreached::<()>() } }; }
macro_rules! assert { ($c:expr $(, $($t:tt)*)?) => { if !($c) { vstd::pervasive::unreached::<()>() } }; }
macro_rules! unreachable { ($($t:tt)*) => { verif_unreachable() }; }
verus! {
#[verifier::external_body]
pub fn verif_unreachable() -> !
    requires false,
{ panic!() }
}
