// LAYER B (C02): per-flow byte sequences over the step contracts of writer, dispatcher and reader.
//   written  bytes accepted by successful writes         (c02_write_push_n3: one Push == the buffer)
//   wire     payloads of Push frames in the ordered outbound queue / on the link (FIFO)
//   queued   payloads in the reader's inbound queue      (dispatch appends to the slot of that id)
//   buf      unconsumed remainder of the frame being read (c02_reader_fifo_consume*)
//   read     bytes handed to the application
pub struct Stream {
    pub written: Seq<u8>,
    pub wire: Seq<Seq<u8>>,
    pub queued: Seq<Seq<u8>>,
    pub buf: Seq<u8>,
    pub read: Seq<u8>,
}

pub open spec fn cat(s: Seq<Seq<u8>>) -> Seq<u8>
    decreases s.len(),
{
    if s.len() == 0 { Seq::<u8>::empty() } else { s[0] + cat(s.subrange(1, s.len() as int)) }
}

// read ++ buf ++ queued ++ wire == written  : nothing lost, duplicated or reordered
pub open spec fn sinv(s: Stream) -> bool {
    s.read + s.buf + cat(s.queued) + cat(s.wire) == s.written
}

pub open spec fn st_write(a: Stream, b: Stream, data: Seq<u8>) -> bool {
    b == (Stream { written: a.written + data, wire: a.wire.push(data), ..a })
}

pub open spec fn st_deliver(a: Stream, b: Stream) -> bool {
    a.wire.len() > 0 && b == (Stream { wire: a.wire.subrange(1, a.wire.len() as int), queued: a.queued.push(a.wire[0]), ..a })
}

pub open spec fn st_fill(a: Stream, b: Stream) -> bool {
    a.buf.len() == 0 && a.queued.len() > 0 && b == (Stream { buf: a.queued[0], queued: a.queued.subrange(1, a.queued.len() as int), ..a })
}

pub open spec fn st_consume(a: Stream, b: Stream, k: int) -> bool {
    0 <= k <= a.buf.len() && b == (Stream { read: a.read + a.buf.subrange(0, k), buf: a.buf.subrange(k, a.buf.len() as int), ..a })
}

pub proof fn lemma_cat_push(s: Seq<Seq<u8>>, x: Seq<u8>)
    ensures cat(s.push(x)) == cat(s) + x,
    decreases s.len(),
{
    if s.len() == 0 {
        reveal_with_fuel(cat, 2);
        assert(s.push(x).subrange(1, 1) =~= Seq::<Seq<u8>>::empty());
        assert(cat(s.push(x)) =~= x + Seq::<u8>::empty());
        assert(cat(s) + x =~= x);
        assert(x + Seq::<u8>::empty() =~= x);
    } else {
        assert(s.push(x).subrange(1, s.len() as int + 1) =~= s.subrange(1, s.len() as int).push(x));
        lemma_cat_push(s.subrange(1, s.len() as int), x);
        assert(cat(s.push(x)) =~= s[0] + (cat(s.subrange(1, s.len() as int)) + x));
        assert(cat(s) + x =~= s[0] + (cat(s.subrange(1, s.len() as int)) + x));
    }
}

pub proof fn lemma_stream_steps(a: Stream, b: Stream, data: Seq<u8>, k: int)
    requires sinv(a), st_write(a, b, data) || st_deliver(a, b) || st_fill(a, b) || st_consume(a, b, k),
    ensures sinv(b),
{
    if st_write(a, b, data) {
        lemma_cat_push(a.wire, data);
        assert(b.read + b.buf + cat(b.queued) + cat(b.wire) =~= a.read + a.buf + cat(a.queued) + cat(a.wire) + data);
    } else if st_deliver(a, b) {
        lemma_cat_push(a.queued, a.wire[0]);
        assert(cat(a.wire) =~= a.wire[0] + cat(b.wire));
        assert(b.read + b.buf + cat(b.queued) + cat(b.wire) =~= a.read + a.buf + cat(a.queued) + cat(a.wire));
    } else if st_fill(a, b) {
        assert(cat(a.queued) =~= b.buf + cat(b.queued));
        assert(a.buf =~= Seq::<u8>::empty());
        assert(b.read + b.buf + cat(b.queued) + cat(b.wire) =~= a.read + a.buf + cat(a.queued) + cat(a.wire));
    } else {
        assert(a.buf =~= a.buf.subrange(0, k) + b.buf);
        assert(b.read + b.buf + cat(b.queued) + cat(b.wire) =~= a.read + a.buf + cat(a.queued) + cat(a.wire));
    }
}

// C02 prefix property: at every moment the bytes read are a prefix of the bytes written
pub proof fn lemma_read_is_prefix(s: Stream)
    requires sinv(s),
    ensures s.read.len() <= s.written.len(), s.written.subrange(0, s.read.len() as int) == s.read,
{
    let rest = s.buf + cat(s.queued) + cat(s.wire);
    assert(s.written =~= s.read + rest);
    assert(s.written.subrange(0, s.read.len() as int) =~= s.read);
}

// ... and equal once everything was delivered and consumed (clean shutdown + read to EOF)
pub proof fn lemma_drained_equal(s: Stream)
    requires sinv(s), s.buf.len() == 0, s.queued.len() == 0, s.wire.len() == 0,
    ensures s.read == s.written,
{
    assert(s.read + s.buf + cat(s.queued) + cat(s.wire) =~= s.read);
}
