// LAYER B (C16): from the per-tick contract of `schedule_ping_task` (Kani: p_ping_tick_decision --
// at a tick at time n with last pong at p the connection ends with KeepaliveTimeout iff T is finite
// and n - p > T, else exactly one Ping is sent) and the ASSUMED behaviour of the tick source (ticks
// at k*I, k = 0, 1, 2, ...; tokio::time::interval) to the bounds the property states.
// Times are integers (any unit); I >= 1; T >= I (Options::keepalive_timeout clamps: Kani
// c16_timeout_clamped_to_interval).

pub open spec fn times_out(t: int, n: int, p: int) -> bool {
    n - p > t
}

// detection: if the tick at time n is the FIRST one that times out (the previous tick, at n - i,
// did not, or there was none because n - i < p, i.e. the pong arrived after it), then the
// connection ends later than T and no later than T + I after the last pong
pub proof fn lemma_detection_window(i: int, t: int, p: int, n: int)
    requires
        i >= 1,
        t >= i,
        times_out(t, n, p),
        !times_out(t, n - i, p),
    ensures
        t < n - p <= t + i,
{
}

// a dead peer is detected: with ticks every I there IS a tick in (p + T, p + T + I]; k = the tick index
pub proof fn lemma_some_tick_detects(i: int, t: int, p: int) -> (k: int)
    requires
        i >= 1,
        t >= i,
        p >= 0,
    ensures
        k >= 0,
        times_out(t, k * i, p),
        k * i - p <= t + i,
{
    // k = floor((p + t) / i) + 1
    let q = (p + t) / i;
    assert(q * i <= p + t < q * i + i) by (nonlinear_arith)
        requires i >= 1, p + t >= 0, q == (p + t) / i;
    assert((q + 1) * i == q * i + i) by (nonlinear_arith);
    assert(q >= 0) by (nonlinear_arith)
        requires i >= 1, p + t >= 0, q == (p + t) / i;
    q + 1
}

// a live peer is never timed out: if every ping is answered within d <= T, then at every tick n the
// last pong p is at most ... old: the ping of the previous tick (at n - i) was answered by n - i + d,
// so p >= n - i when d <= i, and in general n - p <= i + 0 <= T ... stated on what the loop compares:
pub proof fn lemma_live_peer_survives(i: int, t: int, p: int, n: int)
    requires
        i >= 1,
        t >= i,
        // the pong to the ping sent at the previous tick has arrived before this tick
        p >= n - i,
    ensures
        !times_out(t, n, p),
{
}

// disabled keepalive: no interval => no tick => the loop body never runs (p_ping_disabled); nothing to prove.
