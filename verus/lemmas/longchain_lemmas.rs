// LEMMAS about `flat` (pure sequence mathematics).
pub proof fn lemma_flat_concat(a: Seq<CowBytes>, b: Seq<CowBytes>)
    ensures flat(a + b) == flat(a) + flat(b),
    decreases b.len(),
{
    if b.len() == 0 {
        assert(a + b =~= a);
        assert(flat(a) + flat(b) =~= flat(a));
    } else {
        assert((a + b).drop_last() =~= a + b.drop_last());
        assert((a + b).last() == b.last());
        lemma_flat_concat(a, b.drop_last());
        assert(flat(a + b) =~= flat(a) + flat(b));
    }
}

pub proof fn lemma_flat_one(c: CowBytes)
    ensures flat(seq![c]) == c@,
{
    reveal_with_fuel(flat, 2);
    assert(seq![c].drop_last() =~= Seq::<CowBytes>::empty());
    assert(seq![c].last() == c);
    assert(Seq::<u8>::empty() + c@ =~= c@);
}

pub proof fn lemma_flat_push(a: Seq<CowBytes>, c: CowBytes)
    ensures flat(a.push(c)) == flat(a) + c@,
{
    assert(a.push(c).drop_last() =~= a);
}

pub proof fn lemma_flat_split(v: Seq<CowBytes>, i: int)
    requires 0 <= i <= v.len(),
    ensures flat(v) == flat(v.subrange(0, i)) + flat(v.subrange(i, v.len() as int)),
{
    assert(v =~= v.subrange(0, i) + v.subrange(i, v.len() as int));
    lemma_flat_concat(v.subrange(0, i), v.subrange(i, v.len() as int));
}

pub proof fn lemma_flat_prefix_step(v: Seq<CowBytes>, i: int)
    requires 0 <= i < v.len(),
    ensures flat(v.subrange(0, i + 1)) == flat(v.subrange(0, i)) + v[i]@,
{
    assert(v.subrange(0, i + 1).drop_last() =~= v.subrange(0, i));
}

pub proof fn lemma_flat_len_nonneg_prefix(v: Seq<CowBytes>, i: int)
    requires 0 <= i <= v.len(),
    ensures flat(v.subrange(0, i)).len() <= flat(v).len(),
{
    lemma_flat_split(v, i);
}

pub proof fn lemma_flat_empty()
    ensures flat(Seq::<CowBytes>::empty()) == Seq::<u8>::empty(),
{
}

pub proof fn lemma_flat_prefix_is_prefix(v: Seq<CowBytes>, i: int)
    requires 0 <= i <= v.len(),
    ensures
        flat(v.subrange(0, i)).len() <= flat(v).len(),
        flat(v.subrange(0, i)) == flat(v).subrange(0, flat(v.subrange(0, i)).len() as int),
{
    lemma_flat_split(v, i);
    assert(flat(v.subrange(0, i)) =~= flat(v).subrange(0, flat(v.subrange(0, i)).len() as int));
}

pub proof fn lemma_flat_cons(v: Seq<CowBytes>)
    requires v.len() >= 1,
    ensures flat(v) == v[0]@ + flat(v.subrange(1, v.len() as int)),
{
    lemma_flat_split(v, 1);
    assert(v.subrange(0, 1) =~= seq![v[0]]);
    lemma_flat_one(v[0]);
}

// advancing the first chunk by k bytes drops the first k bytes of the whole chain
pub proof fn lemma_flat_advance_first(d: Seq<CowBytes>, c2: CowBytes, k: int)
    requires d.len() >= 1, 0 <= k <= d[0]@.len(), c2@ == d[0]@.subrange(k, d[0]@.len() as int),
    ensures
        flat(d.update(0, c2)) == flat(d).subrange(k, flat(d).len() as int),
        k == d[0]@.len() ==> flat(d.subrange(1, d.len() as int)) == flat(d).subrange(k, flat(d).len() as int),
{
    let n = d.len() as int;
    lemma_flat_cons(d);
    lemma_flat_cons(d.update(0, c2));
    assert(d.update(0, c2).subrange(1, n) =~= d.subrange(1, n));
    assert(c2@ + flat(d.subrange(1, n)) =~= (d[0]@ + flat(d.subrange(1, n))).subrange(k, flat(d).len() as int));
    if k == d[0]@.len() {
        assert(flat(d.subrange(1, n)) =~= (d[0]@ + flat(d.subrange(1, n))).subrange(k, flat(d).len() as int));
    }
}
