// LEMMAS (hand-written, layer B): pure mathematics over the spec functions.
pub proof fn lemma_opcode_byte()
    ensures
        (0u8 | (7u8 << 4)) == 112u8, (1u8 | (7u8 << 4)) == 113u8, (2u8 | (7u8 << 4)) == 114u8,
        (3u8 | (7u8 << 4)) == 115u8, (4u8 | (7u8 << 4)) == 116u8, (5u8 | (7u8 << 4)) == 117u8,
        (6u8 | (7u8 << 4)) == 118u8,
{
    assert((0u8 | (7u8 << 4)) == 112u8) by (bit_vector);
    assert((1u8 | (7u8 << 4)) == 113u8) by (bit_vector);
    assert((2u8 | (7u8 << 4)) == 114u8) by (bit_vector);
    assert((3u8 | (7u8 << 4)) == 115u8) by (bit_vector);
    assert((4u8 | (7u8 << 4)) == 116u8) by (bit_vector);
    assert((5u8 | (7u8 << 4)) == 117u8) by (bit_vector);
    assert((6u8 | (7u8 << 4)) == 118u8) by (bit_vector);
}

pub broadcast proof fn lemma_flat_full(v: Seq<CowBytes>)
    ensures #[trigger] flat(v.subrange(0, v.len() as int)) == flat(v),
{
    assert(v.subrange(0, v.len() as int) =~= v);
}

pub proof fn lemma_be32_roundtrip(x: u32, s: Seq<u8>, i: int)
    requires 0 <= i, i + 4 <= s.len(), s.subrange(i, i + 4) == u32_be(x),
    ensures be32(s, i) == x as int,
{
    let t = s.subrange(i, i + 4);
    assert(t[0] == s[i] && t[1] == s[i + 1] && t[2] == s[i + 2] && t[3] == s[i + 3]);
    let v = x as int;
    assert(v == (v / 16777216) * 16777216 + ((v / 65536) % 256) * 65536 + ((v / 256) % 256) * 256 + v % 256) by (nonlinear_arith)
        requires 0 <= v < 4294967296;
    assert(0 <= v / 16777216 < 256) by (nonlinear_arith) requires 0 <= v < 4294967296;
}

pub proof fn lemma_be16_roundtrip(x: u16, s: Seq<u8>, i: int)
    requires 0 <= i, i + 2 <= s.len(), s.subrange(i, i + 2) == u16_be(x),
    ensures be16(s, i) == x as int,
{
    let t = s.subrange(i, i + 2);
    assert(t[0] == s[i] && t[1] == s[i + 1]);
    let v = x as int;
    assert(v == (v / 256) * 256 + v % 256) by (nonlinear_arith) requires 0 <= v < 65536;
    assert(0 <= v / 256 < 256) by (nonlinear_arith) requires 0 <= v < 65536;
}

// C09 round trip: every constructible frame encodes to a valid byte string that decodes to itself.
pub proof fn lemma_roundtrip(f: FrameV)
    requires constructible(f),
    ensures valid(enc(f)), dec(enc(f)) =~~= f,
{
    let s = enc(f);
    let op = op_of(f.payload);
    assert(s[0] == (112 + op) as u8);
    assert(spec_ver(s[0]) == 7 && spec_op(s[0]) == op);
    assert(s.subrange(1, 5) =~= u32_be(f.id));
    lemma_be32_roundtrip(f.id, s, 1);
    match f.payload {
        PayloadV::Connect { rwnd, port, host } => {
            assert(s.subrange(5, 9) =~= u32_be(rwnd));
            lemma_be32_roundtrip(rwnd, s, 5);
            assert(s.subrange(9, 11) =~= u16_be(port));
            lemma_be16_roundtrip(port, s, 9);
            assert(s.subrange(11, s.len() as int) =~= host);
        },
        PayloadV::Acknowledge { n } => {
            assert(s.subrange(5, 9) =~= u32_be(n));
            lemma_be32_roundtrip(n, s, 5);
        },
        PayloadV::Reset => {},
        PayloadV::Finish => {},
        PayloadV::Push { data } => {
            assert(s.subrange(5, s.len() as int) =~= data);
        },
        PayloadV::Bind { btype, port, host } => {
            assert(s[5] == btype);
            assert(s.subrange(6, 8) =~= u16_be(port));
            lemma_be16_roundtrip(port, s, 6);
            assert(s.subrange(8, s.len() as int) =~= host);
        },
        PayloadV::Datagram { port, host, data } => {
            assert(s[5] == host.len() as u8);
            assert(s[5] as int == host.len());
            assert(s.subrange(6, 8) =~= u16_be(port));
            lemma_be16_roundtrip(port, s, 6);
            assert(s.subrange(8, 8 + host.len() as int) =~= host);
            assert(s.subrange(8 + host.len() as int, s.len() as int) =~= data);
        },
    }
}

// decode-then-encode: a valid byte string written with version nibble 7 and without trailing
// bytes after fixed-size frames is reproduced exactly (exactness of the layout in the other direction)
pub proof fn lemma_decode_determines_fields(s: Seq<u8>)
    requires valid(s),
    ensures constructible(dec(s)), op_of(dec(s).payload) == spec_op(s[0]),
{
}
