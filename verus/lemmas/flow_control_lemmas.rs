// LAYER B (C03, C04): credit accounting of one direction A -> B of one flow, over the step
// relations discharged on the real code by the Kani contracts named at each step.
//   W      window B advertised in the handshake (queue capacity == W: c03_queue_capacity_is_rwnd,
//          credit initialised to W: c03_init_credit_c04_threshold)
//   T      B's acknowledgement threshold, 1 <= T <= W (c03_init_credit_c04_threshold: T <= own window)
pub struct Flow {
    pub credit: int,        // A's psh_send_remaining
    pub inflight: int,      // Push frames on the wire
    pub queued: int,        // frames in B's inbound queue
    pub since: int,         // B's psh_recvd_since
    pub acks: int,          // sum of n over Acknowledge(n) frames on the wire
    pub w: int,
    pub t: int,
}

pub open spec fn inv(f: Flow) -> bool {
    &&& f.credit >= 0 && f.inflight >= 0 && f.queued >= 0 && f.since >= 0 && f.acks >= 0
    &&& f.w >= 1 && 1 <= f.t <= f.w
    &&& f.credit + f.inflight + f.queued + f.since + f.acks == f.w
    &&& f.since < f.t
}

pub open spec fn init(w: int, t: int) -> Flow {
    Flow { credit: w, inflight: 0, queued: 0, since: 0, acks: 0, w, t }
}

// c03_take_credit / c02_write_push_n3: a Push is sent only with credit > 0 and takes exactly one unit
pub open spec fn step_send(a: Flow, b: Flow) -> bool {
    a.credit > 0 && b == (Flow { credit: a.credit - 1, inflight: a.inflight + 1, ..a })
}

// FlowSlot::dispatch (try_send): the frame moves from the wire into B's queue
pub open spec fn step_deliver(a: Flow, b: Flow) -> bool {
    a.inflight > 0 && b == (Flow { inflight: a.inflight - 1, queued: a.queued + 1, ..a })
}

// c03_ack_emit: consuming one frame adds one to `since`; optionally an Acknowledge(n), 1 <= n <= since+1,
// is emitted and subtracted; afterwards since < T
pub open spec fn step_consume(a: Flow, b: Flow, n: int) -> bool {
    &&& a.queued > 0
    &&& 0 <= n <= a.since + 1
    &&& b == (Flow { queued: a.queued - 1, since: a.since + 1 - n, acks: a.acks + n, ..a })
    &&& b.since < a.t
}

// c03_add_credit: Acknowledge(n) adds exactly n
pub open spec fn step_ack(a: Flow, b: Flow, n: int) -> bool {
    0 < n <= a.acks && b == (Flow { credit: a.credit + n, acks: a.acks - n, ..a })
}

pub proof fn lemma_init(w: int, t: int)
    requires w >= 1, 1 <= t <= w,
    ensures inv(init(w, t)),
{
}

pub proof fn lemma_steps_preserve(a: Flow, b: Flow, n: int)
    requires inv(a), step_send(a, b) || step_deliver(a, b) || step_consume(a, b, n) || step_ack(a, b, n),
    ensures inv(b),
{
}

// C03: the receive window is never overrun between two endpoints that satisfy the step contracts:
// a delivered frame always finds room in the queue of capacity W (try_send never returns Full),
// and frames sent minus credit returned never exceeds W.
pub proof fn lemma_no_overrun(a: Flow, b: Flow)
    requires inv(a), step_deliver(a, b),
    ensures b.queued <= b.w, (a.w - a.credit) <= a.w,
{
}

// C03: acknowledged frames were consumed, and none is acknowledged twice: the total acknowledged
// (on the wire + already credited) plus `since` equals the number of frames consumed.
pub open spec fn consumed(f: Flow) -> int { f.w - f.credit - f.inflight - f.queued }
pub proof fn lemma_ack_accounting(a: Flow)
    requires inv(a),
    ensures consumed(a) == a.since + a.acks, a.acks <= consumed(a),
{
}

// C04 (safety core): no credit deadlock. If everything A sent has been delivered and consumed
// and every Acknowledge has arrived, A still has credit -- provided T <= W, which is exactly the
// contract C04.threshold on new_stream_shared.
pub proof fn lemma_no_credit_deadlock(a: Flow)
    requires inv(a), a.inflight == 0, a.queued == 0, a.acks == 0,
    ensures a.credit >= 1,
{
}

// the same statement fails without T <= W: witness of the defect fixed in /repo (8eaa5af)
pub proof fn lemma_threshold_needed()
    ensures exists|f: Flow| f.w == 4 && f.t == 8 && f.credit == 0 && f.since == 4 && f.inflight == 0 && f.queued == 0 && f.acks == 0
        && f.credit + f.inflight + f.queued + f.since + f.acks == f.w && f.since < f.t,
{
    let f = Flow { credit: 0, inflight: 0, queued: 0, since: 4, acks: 0, w: 4, t: 8 };
    assert(f.w == 4 && f.t == 8 && f.credit == 0 && f.since == 4 && f.inflight == 0 && f.queued == 0 && f.acks == 0
        && f.credit + f.inflight + f.queued + f.since + f.acks == f.w && f.since < f.t);
}
