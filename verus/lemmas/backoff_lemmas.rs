// LEMMA (layer B): iterating the step relation proved for `Backoff::advance`
//   returned_k = min(current_k, max),  current_{k+1} = returned_k * mult
// from current_0 = initial yields the closed form min(initial * mult^k, max) for mult >= 1.
pub proof fn lemma_backoff_closed_form(initial: nat, max: nat, mult: nat, k: nat)
    requires mult >= 1,
    ensures min_nat(backoff_current(initial, max, mult, k), max) == backoff_value(initial, max, mult, k),
    decreases k,
{
    if k == 0 {
        assert(pow_nat(mult, 0) == 1);
        assert(initial * 1 == initial) by (nonlinear_arith);
    } else {
        let km = (k - 1) as nat;
        lemma_backoff_closed_form(initial, max, mult, km);
        let c = backoff_current(initial, max, mult, km);
        let p = initial * pow_nat(mult, km);
        // IH: min(c, max) == min(p, max)
        assert(pow_nat(mult, k) == mult * pow_nat(mult, km));
        assert(initial * pow_nat(mult, k) == p * mult) by (nonlinear_arith)
            requires pow_nat(mult, k) == mult * pow_nat(mult, km), p == initial * pow_nat(mult, km);
        // min(min(p,max)*mult, max) == min(p*mult, max)
        if p <= max {
            assert(min_nat(p, max) * mult == p * mult);
        } else {
            assert(max * mult >= max) by (nonlinear_arith) requires mult >= 1;
            assert(p * mult >= max) by (nonlinear_arith) requires p > max, mult >= 1;
        }
    }
}

// exactly max_count values are produced when max_count != 0: the count field is the number of
// values handed out since new()/reset(), `advance` returns None iff count >= max_count.
pub proof fn lemma_backoff_count(max_count: nat, produced: nat)
    requires max_count != 0, produced <= max_count,
    ensures (produced >= max_count) == (produced == max_count),
{
}
